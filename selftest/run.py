#!/usr/bin/env python3
"""Self-test of the monitors:  selftest/run.py [mutants|benign|seeded|all] [--only name] [--tier quick]

mutants/ and seeded/: every change must make (at least) the expected check exit 1.
benign/: behaviour-preserving or property-preserving changes; every one of the 18 checks must exit 0.
Each change is applied in a scratch worktree of /repo under /tmp (removed afterwards); the checks run
against it through SCHWIFTY_REPO with VERIF_EVIDENCE_DIR redirected, so /repo and the committed evidence
are never touched."""
import concurrent.futures as cf
import glob
import json
import os
import re
import shutil
import subprocess
import sys
import tempfile

VERIF = os.path.dirname(os.path.dirname(os.path.abspath(__file__)))
ALL = [f"C{i:02d}" for i in range(1, 19)]


def git_wt(*args):
    """git worktree bookkeeping, one process at a time (add / remove / prune from concurrent evaluations race
    on /repo/.git/worktrees)."""
    import fcntl  # noqa: PLC0415

    with open("/tmp/vf-worktree.lock", "w") as lk:
        fcntl.flock(lk, fcntl.LOCK_EX)
        return sh(["git", "-C", "/repo", "worktree", *args])


def sh(cmd, **kw):
    p = subprocess.run(cmd, capture_output=True, text=True, errors="replace", **kw)
    return p.returncode, (p.stdout or "") + (p.stderr or "")


def run_case(kind, d, tier):
    meta = json.load(open(os.path.join(d, "meta.json")))
    name = os.path.basename(d)
    wt = tempfile.mkdtemp(prefix="st-")
    os.rmdir(wt)
    res = {"kind": kind, "name": name}
    try:
        rc, out = git_wt("add", "-q", wt, "HEAD")
        if rc:
            res["error"] = out[-300:]
            return res
        rc, out = sh(["git", "-C", wt, "apply", os.path.join(d, "patch.diff")])
        if rc:
            res["error"] = "patch does not apply: " + out[-300:]
            return res
        rc, out = sh(["/venv/bin/python", "-m", "pytest", "-q", "-p", "no:cacheprovider", "--timeout=900"], cwd=wt, timeout=1800)
        m = re.search(r"(\d+) passed", out)
        res["tests_passed"] = int(m.group(1)) if m else 0
        if kind == "benign":
            checks = ALL
        elif meta.get("expect_uncaught"):
            # a kept change that is documented as beyond the checks' reach: the named check must stay silent
            # (if it ever fires, the documentation is out of date)
            checks = [meta.get("property")]
        else:
            checks = meta.get("expect_caught_by") or meta.get("caught_by") or [meta.get("property")]
        res["checks"] = {}
        for c in checks:
            ev = tempfile.mkdtemp(prefix="st-ev-")
            e = dict(os.environ, SCHWIFTY_REPO=wt, VERIF_EVIDENCE_DIR=ev, PYTHONDONTWRITEBYTECODE="1", VERIF_JOBS=os.environ.get("SELFTEST_JOBS", "6"))
            rc, out = sh([os.path.join(VERIF, "bin", "check"), c, tier], cwd=VERIF, env=e, timeout=7200)
            res["checks"][c] = {"rc": rc, "mechanisms": sorted(set(re.findall(r'"mechanism": "([^"]+)"', out)))[:5], "inconclusive": re.findall(r"INCONCLUSIVE[^\n]*", out)[:2]}
            shutil.rmtree(ev, ignore_errors=True)
            if (kind == "benign") != (rc == 1) and rc != 0 or (kind == "benign" and rc != 0):
                # unexpected result: keep the whole output for inspection
                os.makedirs("/tmp/selftest-logs", exist_ok=True)
                with open(f"/tmp/selftest-logs/{name}-{c}.log", "w", encoding="utf-8") as fp:
                    fp.write(out)
        if kind == "benign" or meta.get("expect_uncaught"):
            res["ok"] = res["tests_passed"] >= 362 and all(v["rc"] == 0 for v in res["checks"].values())
        else:
            res["ok"] = res["tests_passed"] >= 362 and all(v["rc"] == 1 for v in res["checks"].values())
    except Exception as ex:  # noqa: BLE001
        res["error"] = repr(ex)
    finally:
        git_wt("remove", "--force", wt)
        shutil.rmtree(wt, ignore_errors=True)
    return res


def main():
    what = sys.argv[1] if len(sys.argv) > 1 and not sys.argv[1].startswith("--") else "all"
    tier = sys.argv[sys.argv.index("--tier") + 1] if "--tier" in sys.argv else "quick"
    only = sys.argv[sys.argv.index("--only") + 1] if "--only" in sys.argv else None
    cases = []
    if what in ("mutants", "all"):
        cases += [("mutant", d) for d in sorted(glob.glob(os.path.join(VERIF, "selftest", "mutants", "*")))]
    if what in ("seeded", "all"):
        cases += [("seeded", d) for d in sorted(glob.glob(os.path.join(VERIF, "seeded", "*")))]
    if what in ("benign", "all"):
        cases += [("benign", d) for d in sorted(glob.glob(os.path.join(VERIF, "selftest", "benign", "*")))]
    if only:
        cases = [c for c in cases if only in os.path.basename(c[1])]
    bad = 0
    with cf.ThreadPoolExecutor(max_workers=int(os.environ.get("SELFTEST_PAR", "3"))) as ex:
        for r in ex.map(lambda c: run_case(c[0], c[1], tier), cases):
            ok = r.get("ok")
            bad += 0 if ok else 1
            brief = {c: (v["rc"], v["mechanisms"][:2] or v["inconclusive"][:1]) for c, v in r.get("checks", {}).items() if (r["kind"] != "benign" or v["rc"] != 0)}
            print(("OK  " if ok else "FAIL"), r["kind"], r["name"], "tests", r.get("tests_passed"), r.get("error", ""), json.dumps(brief)[:1500], flush=True)
    print(f"{len(cases)} cases, {bad} failed")
    return 1 if bad else 0


if __name__ == "__main__":
    sys.exit(main())
