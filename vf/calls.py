"""Call descriptors (JSON-serialisable) -> execution against the real library -> canonical outcome.
Shared by C14 (same call under different schedules) and C15 (same call under different histories)."""
from __future__ import annotations

import json
import threading
import warnings
from random import Random

from vf.lib import h64
from vf.ref import data

ACCESSORS = ["country_code", "checksum_digits", "bank_code", "branch_code", "account_code", "national_checksum_digits",
             "account_type", "account_id", "account_holder_id", "currency_code", "location_code", "formatted", "compact"]


def canon(v, depth=0):
    """Canonical, JSON-able rendering of a result."""
    tn = type(v).__name__
    if tn in ("IBAN", "BIC", "BBAN"):
        d = {"class": tn, "str": str(v)}
        for a in ACCESSORS:
            try:
                x = getattr(v, a)
            except AttributeError:
                continue
            except Exception as e:  # noqa: BLE001
                x = "EXC:" + type(e).__name__
            d[a] = x if isinstance(x, (str, int, bool, type(None))) else str(x)
        if tn == "IBAN" and depth == 0:
            b = getattr(v, "bban", None)
            d["bban"] = canon(b, 1) if b is not None else None
        return d
    if isinstance(v, dict):
        return {str(k): canon(x, depth + 1) for k, x in v.items() if k != "regex"}
    if isinstance(v, (list, tuple)):
        return [canon(x, depth + 1) for x in v]
    if isinstance(v, (str, int, float, bool)) or v is None:
        return v
    return repr(v)


_TL = threading.local()
_CAPTURE = {"on": False}


def capture_warnings():
    """Make warnings part of every observed outcome: filter 'always', and a showwarning hook that files each
    warning under the thread that raised it (warnings.catch_warnings itself is not thread-safe, so it is not
    used here)."""
    if _CAPTURE["on"]:
        return
    warnings.simplefilter("always")

    def show(message, category, filename, lineno, file=None, line=None):
        buf = getattr(_TL, "buf", None)
        if buf is not None:
            buf.append(getattr(category, "__name__", str(category)))

    warnings.showwarning = show
    _CAPTURE["on"] = True


def execute(S, d: dict, keep: list | None = None):
    """Returns ['ok', canonical] or ['exc', class name, message]; with capture_warnings() on, a third/fourth
    element lists the categories of the warnings the call emitted."""
    _TL.buf = [] if _CAPTURE["on"] else None
    warned = None
    try:
        r = _dispatch(S, d, keep)
        # only what the call itself emitted: rendering the result below reads accessors (`compact`) that a tree
        # may have deprecated - warnings caused by the harness's own reads are not part of the call's outcome
        warned, _TL.buf = _TL.buf, None
        out = ["ok", canon(r)]
    except Exception as e:  # noqa: BLE001
        if warned is None:
            warned = _TL.buf
        out = ["exc", type(e).__name__, str(e)[:200]]
    if warned:
        out.append({"warnings": sorted(set(warned))})
    _TL.buf = None
    return out


class _Boom(Exception):
    pass


def _registry_fail(S, how):
    """Calls into schwifty.registry that fail.  They only ever name registries / indices of their own
    (never the library's), so that whatever an implementation does with the request - fail at once, record a
    definition and fail later - cannot legitimately disturb the library's own tables."""
    import importlib  # noqa: PLC0415

    reg = importlib.import_module("schwifty.registry")
    try:
        if how == "get_unknown":
            reg.get("holiday")
        elif how == "build_index_missing_key":
            reg.build_index("bank", "vf_probe_index", key="no_such_field_in_any_record", accumulate=True)
        elif how == "manipulate_raises":
            def boom(*a, **k):
                raise _Boom("callback failed")

            reg.manipulate("vf_probe_registry", boom)
    except Exception as e:  # noqa: BLE001
        return "failed:" + type(e).__name__
    return "returned"


def _reuse_kept(S, d, keep):
    """Hand objects created earlier back to the constructors.  The return value does not depend on the objects."""
    for o in list(keep or [])[-4:]:
        try:
            if isinstance(o, S.IBAN):
                S.BBAN(d["other"], o.bban)
                S.IBAN.from_bban(d["other"], o.bban, allow_invalid=True)
                S.IBAN(o, allow_invalid=True)
            elif isinstance(o, S.BIC):
                S.BIC(o, allow_invalid=True)
            elif isinstance(o, S.BBAN):
                S.BBAN(d["other"], o)
        except Exception:  # noqa: BLE001
            pass
    return "reused"


_SHARED: dict = {}
_SHARED_LOCK = threading.Lock()


def _shared(S, d):
    """One object per (class, text) and process, shared by every caller (threads, histories)."""
    key = (d["cls"], d["text"])
    with _SHARED_LOCK:
        o = _SHARED.get(key)
        if o is None:
            o = _SHARED[key] = (S.IBAN if d["cls"] == "iban" else S.BIC)(d["text"], allow_invalid=True)
    return o


_NARROW: dict = {}


def _narrow(S, which):
    """User subclasses whose __init__ takes the text only (and asks for strict validation itself); one per `which`
    so that every descriptor meets a class the library has not seen before in this process."""
    with _SHARED_LOCK:
        if which not in _NARROW:
            class NarrowIBAN(S.IBAN):
                def __init__(self, iban):
                    super().__init__(iban, validate_bban=True)

            NarrowIBAN.__name__ = NarrowIBAN.__qualname__ = f"NarrowIBAN_{which}"
            _NARROW[which] = NarrowIBAN
        return _NARROW[which]


def _dispatch(S, d, keep):
    fn = d["fn"]
    kw = d.get("kw", {})
    if fn == "narrow_subclass":
        cls = _narrow(S, d["which"])
        how = d["how"]
        if how == "generate":
            return cls.generate("DE", bank_code="37040044", account_code="532013000")
        if how == "from_bban":
            return cls.from_bban("DE", "370400440532013000")
        if how == "random":
            return cls.random("DE", random=__import__("random").Random(5))
        return cls("DE89370400440532013000")
    if fn == "shared_validate":
        return _shared(S, d).validate(**kw)
    if fn == "shared_read":
        o = _shared(S, d)
        return [_try(lambda a=a: getattr(o, a)) for a in d["attrs"]]
    if fn == "reuse_kept":
        return _reuse_kept(S, d, keep)
    if fn == "registry_fail":
        return _registry_fail(S, d["how"])
    if fn == "iban":
        o = S.IBAN(d["text"], **kw)
        if keep is not None:
            keep.append(o)
        return o
    if fn == "iban_is_valid":
        return S.IBAN(d["text"], allow_invalid=True).is_valid
    if fn == "iban_validate":
        return S.IBAN(d["text"], allow_invalid=True).validate(**kw)
    if fn == "iban_lookup":
        o = S.IBAN(d["text"], allow_invalid=True)
        if keep is not None:
            keep.append(o)
        b = o.bic
        return {"bic": b, "bank": o.bank, "bank_name": o.bank_name, "bank_short_name": o.bank_short_name, "sepa": _try(lambda: o.in_sepa_zone)}
    if fn == "bic":
        o = S.BIC(d["text"], **kw)
        if keep is not None:
            keep.append(o)
        return o
    if fn == "bic_is_valid":
        return S.BIC(d["text"], allow_invalid=True).is_valid
    if fn == "bic_lookup":
        o = S.BIC(d["text"], allow_invalid=True)
        return {"codes": o.domestic_bank_codes, "names": o.bank_names, "short": o.bank_short_names, "exists": o.exists, "type": _try(lambda: o.type)}
    if fn == "from_bank_code":
        return S.BIC.from_bank_code(d["country"], d["code"])
    if fn == "candidates":
        return S.BIC.candidates_from_bank_code(d["country"], d["code"])
    if fn == "generate":
        return S.IBAN.generate(d["country"], bank_code=d["bank"], account_code=d["account"], branch_code=d.get("branch", ""))
    if fn == "from_components":
        o = S.BBAN.from_components(d["country"], **kw)
        if keep is not None:
            keep.append(o)
        return o
    if fn == "from_bban":
        return S.IBAN.from_bban(d["country"], d["bban"], **kw)
    if fn == "random":
        return S.IBAN.random(d["country"], random=Random(d["seed"]), use_registry=d.get("use_registry", True), **kw)
    if fn == "bban_random":
        return S.BBAN.random(d["country"], random=Random(d["seed"]), use_registry=d.get("use_registry", True), **kw)
    if fn == "bban":
        o = S.BBAN(d["country"], d["value"])
        if keep is not None:
            keep.append(o)
        return {"obj": o, "bank": o.bank, "bic": o.bic, "nat": _try(o.validate_national_checksum)}
    if fn == "bban_check":
        return S.BBAN(d["country"], d["value"]).validate_national_checksum()
    if fn == "algo":
        from schwifty.checksum import algorithms  # noqa: PLC0415

        return algorithms[d["key"]].validate(list(d["components"]), d.get("expected", ""))
    if fn == "algo_compute":
        from schwifty.checksum import algorithms  # noqa: PLC0415

        return algorithms[d["key"]].compute(list(d["components"]))
    if fn == "iban_country":
        c = S.IBAN(d["text"], allow_invalid=True).country
        return None if c is None else getattr(c, "alpha_2", str(c))
    if fn == "bic_country":
        o = S.BIC(d["text"], allow_invalid=True)
        c = o.country
        return {"country": None if c is None else getattr(c, "alpha_2", str(c)), "is_valid": o.is_valid}
    if fn == "spec":
        return S.IBAN(d["text"], allow_invalid=True).spec
    raise KeyError(fn)


def _try(f):
    try:
        return f()
    except Exception as e:  # noqa: BLE001
        return "EXC:" + type(e).__name__


def digest(outcome) -> int:
    return h64(json.dumps(outcome, sort_keys=True, default=str))


def did(d: dict) -> str:
    return json.dumps(d, sort_keys=True)
