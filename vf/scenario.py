"""Scenario harness: scratch copies of the package (outside /repo and /verif) with overlay registry
files.  .py files are copied from the working tree, unchanged JSON files are symlinked."""
from __future__ import annotations

import json
import os
import shutil
import tempfile

from vf import env


def make_scratch(overlays: dict | None = None, remove: list | None = None, drop_all: list | None = None, base_pkg: str | None = None) -> str:
    """overlays: {'bank_registry/zz.json': python-object-or-str}; remove: relative paths not to link;
    drop_all: registry directory names ('bank_registry') whose bundled JSON files are all left out.
    Returns the scratch root (use as SCHWIFTY_REPO)."""
    base = base_pkg or os.path.join(os.path.abspath(os.environ.get("SCHWIFTY_BASE_REPO", env.REPO)), "schwifty")
    root = tempfile.mkdtemp(prefix="vf-scn-")
    dst = os.path.join(root, "schwifty")
    remove = set(remove or [])
    drop_all = set(drop_all or [])
    for dirpath, dirnames, filenames in os.walk(base):
        dirnames[:] = [d for d in dirnames if d != "__pycache__"]
        rel = os.path.relpath(dirpath, base)
        tgt = os.path.join(dst, rel) if rel != "." else dst
        os.makedirs(tgt, exist_ok=True)
        for fn in filenames:
            relf = fn if rel == "." else os.path.join(rel, fn)
            src = os.path.join(dirpath, fn)
            if fn.endswith(".py") or fn == "py.typed":
                shutil.copy2(src, os.path.join(tgt, fn))
            elif fn.endswith(".json"):
                if relf in remove or rel in drop_all:
                    continue
                os.symlink(src, os.path.join(tgt, fn))
    for relf, content in (overlays or {}).items():
        path = os.path.join(dst, relf)
        os.makedirs(os.path.dirname(path), exist_ok=True)
        if os.path.islink(path) or os.path.exists(path):
            os.unlink(path)
        with open(path, "w", encoding="utf-8") as fp:
            if isinstance(content, str):
                fp.write(content)
            else:
                json.dump(content, fp)
    return root


def remove_scratch(root: str):
    if root and os.path.basename(root).startswith("vf-scn-"):
        shutil.rmtree(root, ignore_errors=True)
