"""Anchors: literals of the repository's own test-suite, read with ast (never imported)."""
from __future__ import annotations

import ast
import os

from vf import env


def module_lists(relpath: str, names) -> dict:
    out = {n: [] for n in names}
    try:
        with open(os.path.join(env.REPO, relpath), encoding="utf-8") as fp:
            tree = ast.parse(fp.read())
        for node in tree.body:
            tgt = None
            if isinstance(node, ast.Assign) and len(node.targets) == 1 and isinstance(node.targets[0], ast.Name):
                tgt, val = node.targets[0].id, node.value
            elif isinstance(node, ast.AnnAssign) and isinstance(node.target, ast.Name) and node.value is not None:
                tgt, val = node.target.id, node.value
            if tgt in out:
                try:
                    v = ast.literal_eval(val)
                    out[tgt] = [x for x in v if isinstance(x, str)]
                except Exception:  # noqa: BLE001
                    pass
    except Exception:  # noqa: BLE001
        pass
    return out


def iban_literals() -> dict:
    return module_lists("tests/test_iban.py", ["valid", "invalid", "experimental"])


def german_literals() -> dict:
    """{'success': [(account, 'DE:xx')...], 'failure': [...]} from tests/test_checksum.py parametrize lists."""
    out = {"success": [], "failure": []}
    try:
        with open(os.path.join(env.REPO, "tests/test_checksum.py"), encoding="utf-8") as fp:
            tree = ast.parse(fp.read())
        for node in tree.body:
            if not isinstance(node, ast.FunctionDef):
                continue
            key = "success" if node.name.endswith("german_checksum_success") else "failure" if node.name.endswith("german_checksum_failure") else None
            if not key:
                continue
            for dec in node.decorator_list:
                if isinstance(dec, ast.Call) and len(dec.args) >= 2:
                    try:
                        vals = ast.literal_eval(dec.args[1])
                        out[key] += [(a, m) for a, m in vals if isinstance(a, str) and isinstance(m, str)]
                    except Exception:  # noqa: BLE001
                        pass
    except Exception:  # noqa: BLE001
        pass
    return out
