"""Worker-side judges shared by several properties: observe the real library at its public boundary
and compare with the three-valued reference oracles."""
from __future__ import annotations

from vf import env
from vf.lib import Mon, Obs, esc, observe
from vf.ref import iban as R

_S = None


_LIB_LOCK = __import__("threading").Lock()


def lib():
    global _S  # noqa: PLW0603
    if _S is None:
        # one thread at a time: use_repo() edits sys.path, and a second harness thread importing in between
        # would pick up the installed copy instead of the tree under test
        with _LIB_LOCK:
            if _S is None:
                env.use_repo()
                import schwifty  # noqa: PLC0415
                import schwifty.exceptions  # noqa: PLC0415

                _S = schwifty
    return _S


def prelude():
    """Use the library's other entry points once before a shard's own workload (every second shard): state
    left behind by generation, random draws, look-ups, copies or failing calls must not change any verdict."""
    import copy  # noqa: PLC0415
    from random import Random  # noqa: PLC0415

    S = lib()
    from vf import calls as C_  # noqa: PLC0415
    from vf.ref import data as D_  # noqa: PLC0415

    table = D_.countries()
    rng = env.rng("prelude")
    # calls into the registry module that fail must leave everything as it was
    for how in ("get_unknown", "build_index_missing_key", "manipulate_raises"):
        C_._registry_fail(S, how)
    for cc in ["DE", "GB", "FR", "NO", "PL", "IS", "XK", "HN", "GW"] + rng.sample(sorted(table), 8):
        spec = table.get(cc)
        if not spec:
            continue
        for f in (lambda: S.IBAN.random(cc, random=Random(1)), lambda: S.IBAN.generate(cc, bank_code="1", account_code="1"),
                  lambda: S.BBAN.from_components(cc, bank_code="1", account_code="2"), lambda: S.IBAN.from_bban(cc, "0" * spec["bban_length"]),
                  lambda: S.IBAN(cc + "00" + "0" * spec["bban_length"], allow_invalid=True).country, lambda: S.BBAN(cc, "12A4").validate_national_checksum()):
            observe(f)
    for f in (lambda: S.IBAN.random("GB", random=Random(3), bank_code="LOYD"), lambda: S.IBAN.random("DE", random=Random(4), bank_code="37040044", account_code="0532013000"),
              lambda: S.IBAN.random("PL", random=Random(5), branch_code="1234"), lambda: S.IBAN.generate("PL", "10100000", "1234567"),
              lambda: S.IBAN.generate("GB", "NWBK601613", "31926819"), lambda: S.IBAN.generate("SI", "19100", "12345678"),
              lambda: S.IBAN.random("MT", random=Random(6)), lambda: S.IBAN.random("KM", random=Random(6)), lambda: S.IBAN("KM4600005000010010904400137").bank_code,
              lambda: S.IBAN("HN88CABF00000000000250005469").account_code):
        observe(f)
    for f in (lambda: S.BIC.from_bank_code("DE", "37040044"), lambda: S.BIC.candidates_from_bank_code("FR", "30004"), lambda: S.BIC("GENODEM1GLS").country,
              lambda: S.BIC("ABCDXK22", allow_invalid=True).country, lambda: S.BIC("ABCDZZ22"), lambda: copy.deepcopy(S.IBAN("DE89370400440532013000")),
              lambda: S.IBAN("DE89370400440532013000", validate_bban=True).bic, lambda: S.IBAN("DE00370400440532013000"), lambda: S.IBAN.random(random=Random(2))):
        observe(f)


def _judge_from_bban(mon, o, w2, table):
    mon.ev()
    mon.tally("from_bban_sloppy_arguments")
    if o.ok:
        e = R.expect_iban(str(o.value), table)
        if e.verdict == R.REJECT:
            mon.viol("from_bban_returned_invalid_iban", w2, sorted(e.defects), str(o.value))
    elif not is_lib_exc(o.exc):
        mon.viol(f"escape:from_bban:{o.exc_name}", w2, "library error", o.brief())


def from_bban_sloppy_arguments(mon, cc, b0, table):
    """from_bban is a validating constructor: whatever it returns must be a valid IBAN by the reference, also
    for sloppy arguments (surplus characters in the country code, short / long / decorated BBANs)."""
    S = lib()
    for carg, barg in [(cc + b0[:1], b0[1:]), (cc + "8", b0[:-1]), (cc + "89", b0[:-2]), (cc.lower(), b0), (cc + " ", b0), (cc, b0 + "0"), (cc, b0[:-1]),
                       (cc, " " + b0), (cc, b0.lower()), (cc[:1], cc[1:] + b0), ("", b0), (cc, ""), (cc + "00", b0[2:]), (cc, b0[:4] + " " + b0[4:]),
                       # BBANs whose numeric form is longer than the interpreter converts by default (4300 digits)
                       (cc, "1" * 4301), (cc, "NWBK" * 1200), (cc, b0 + "7" * 4400), (cc, "9" * 20000)]:
        for kw in ({}, {"validate_bban": True}):
            o = observe(S.IBAN.from_bban, carg, barg, **kw)
            _judge_from_bban(mon, o, {"country_arg": carg, "bban_arg": barg, "kw": kw}, table)
    import enum  # noqa: PLC0415

    # BBAN objects that belong to another country (same length, other structure), and the country code as a
    # member of a str-valued enum (a str whose format() differs from its value on 3.12)
    same_len = [c for c in sorted(table) if c != cc and table[c]["bban_length"] == len(b0)]
    from vf import gen as G_  # noqa: PLC0415

    rng_ = env.rng("from_bban_foreign", cc)
    for other in same_len[:3]:
        ob = G_.random_bban(table[other], rng_, "letters")
        o = observe(S.IBAN.from_bban, cc, S.BBAN(other, ob))
        _judge_from_bban(mon, o, {"country_arg": cc, "bban_arg": f"BBAN({other!r}, {ob!r})"}, table)
    # ... and BBAN objects of countries that share this country's structure: the text fits, the label does not
    twins = [c for c in sorted(table) if c != cc and table[c]["bban_spec"] == table[cc]["bban_spec"]]
    for other in rng_.sample(twins, min(2, len(twins))):
        foreign_bban_probe(mon, cc, other, b0, table)
    Code = enum.Enum("Code", {cc: cc}, type=str) if cc.isalpha() and len(cc) == 2 else None
    if Code is not None:
        o = observe(S.IBAN.from_bban, Code[cc], b0)
        mon.ev()
        if not o.ok or str(o.value) != R.make_iban(cc, b0):
            mon.viol("from_bban_country_code_as_str_enum_member", {"country_arg": f"<str-enum {cc}>", "bban_arg": b0}, R.make_iban(cc, b0), o.brief())


def _obj_state(o):
    return (type(o).__name__, str(o), getattr(o, "country_code", None), id(getattr(o, "bban", None)), str(getattr(o, "bban", "")), getattr(getattr(o, "bban", None), "country_code", None))


def foreign_bban_probe(mon, cc, other, b0, table, **kw):
    """A BBAN object labelled with country `other` whose text `b0` fits the structure of `cc` is handed to the
    constructors of `cc`: the result belongs to `cc` in every respect and the argument object stays what it was.
    Returns the observation of IBAN.from_bban(cc, obj, **kw)."""
    S = lib()
    obj = S.BBAN(other, b0)
    holder = S.IBAN(R.make_iban(other, b0), allow_invalid=True)  # an IBAN of the other country holding an equal BBAN
    before = (_obj_state(obj), _obj_state(holder), _obj_state(holder.bban))
    w = {"country_arg": cc, "bban_arg": f"BBAN({other!r}, {b0!r})", "kw": kw}
    mon.ev()
    mon.tally("foreign_bban_object_probes")
    o = observe(S.IBAN.from_bban, cc, obj, **kw)
    want = R.make_iban(cc, b0)
    if o.ok:
        if str(o.value) != want:
            mon.viol("from_bban_ignores_country_argument_for_bban_object", w, want, str(o.value))
        elif getattr(o.value.bban, "country_code", None) != cc or o.value.country_code != cc:
            mon.viol("from_bban_result_carries_bban_of_other_country", w, cc, [o.value.country_code, getattr(o.value.bban, "country_code", None)])
    elif not is_lib_exc(o.exc):
        mon.viol(f"escape:from_bban:{o.exc_name}", w, "library error", o.brief())
    # the plain constructors given the foreign objects
    o2 = observe(S.BBAN, cc, obj)
    if o2.ok and (str(o2.value) != b0 or o2.value.country_code != cc):
        mon.viol("bban_constructor_result_not_of_requested_country", w, [cc, b0], [o2.value.country_code, str(o2.value)])
    o3 = observe(S.BBAN, cc, holder.bban)
    if o3.ok and (str(o3.value) != b0 or o3.value.country_code != cc):
        mon.viol("bban_constructor_result_not_of_requested_country", w, [cc, b0], [o3.value.country_code, str(o3.value)])
    o4 = observe(S.IBAN, holder, allow_invalid=True)
    if o4.ok and str(o4.value) != str(holder):
        mon.viol("iban_constructor_changed_text_of_iban_object", w, str(holder), str(o4.value))
    after = (_obj_state(obj), _obj_state(holder), _obj_state(holder.bban))
    if after != before:
        mon.viol("constructor_modified_its_argument_object", w, before, after)
    return o


def is_lib_exc(e) -> bool:
    return isinstance(e, lib().exceptions.SchwiftyException)


def nonascii_kind(text: str) -> str:
    import unicodedata  # noqa: PLC0415

    kinds = set()
    for c in text:
        if ord(c) > 127:
            try:
                kinds.add(unicodedata.category(c))
            except Exception:  # noqa: BLE001
                kinds.add("??")
    return "+".join(sorted(kinds)) or "ascii"


def iban_three_ways(text: str, validate_bban: bool = False):
    S = lib()
    kw = {"validate_bban": True} if validate_bban else {}
    o_ctor = observe(S.IBAN, text, **kw)
    o_unv = observe(S.IBAN, text, allow_invalid=True)
    o_val = o_isv = None
    if o_unv.ok:
        o_val = observe(o_unv.value.validate, **kw)
        o_isv = observe(lambda: o_unv.value.is_valid)
    return o_ctor, o_unv, o_val, o_isv


class _Text(str):
    """A plain str subclass: still 'a text'."""


class _Masked(str):
    """A str subclass whose str() / repr() / format() show something else than its value (a redacting wrapper, a
    member of a `class X(str, Enum)`): the *value* is the text."""

    def __str__(self):
        return "****"

    def __repr__(self):
        return "<masked>"

    def __format__(self, spec):
        return "****"


def _enum_member(text):
    import enum  # noqa: PLC0415

    try:
        return enum.Enum("Known", {"ENTRY": text}, type=str).ENTRY
    except Exception:  # noqa: BLE001
        return None


_SUBS: dict = {}


_SUBS_LOCK = __import__("threading").Lock()


def subclasses():
    with _SUBS_LOCK:
        return _subclasses()


def _subclasses():
    """User-style subclasses of the three classes: one that only adds a helper, and ones that change the
    documented defaults through their own __init__ (the documented way to do so)."""
    if not _SUBS:
        S = lib()

        class HelperIBAN(S.IBAN):
            @property
            def masked(self):
                return str(self)[:4] + "*" * (len(self) - 4)

        class StrictIBAN(S.IBAN):
            def __init__(self, iban, allow_invalid=False):
                super().__init__(iban, allow_invalid=allow_invalid, validate_bban=True)

        class HelperBIC(S.BIC):
            def short(self):
                return str(self)[:8]

        class SwiftBIC(S.BIC):
            def __init__(self, bic, allow_invalid=False):
                super().__init__(bic, allow_invalid=allow_invalid, enforce_swift_compliance=True)

        class HelperBBAN(S.BBAN):
            tag = "helper"

        _SUBS.update(HelperIBAN=HelperIBAN, StrictIBAN=StrictIBAN, HelperBIC=HelperBIC, SwiftBIC=SwiftBIC, HelperBBAN=HelperBBAN)
    return _SUBS


class _Truthy:
    """A value that is not a bool but has a truth value (numpy.bool_, the result of `a and b`, ...)."""

    def __init__(self, v):
        self.v = bool(v)

    def __bool__(self):
        return self.v

    def __repr__(self):
        return f"<bool-like {self.v}>"


def call_forms_agree(mon, kind, text, flag, o_ref, w):
    """The same request made positionally (documented parameter order) or through a user subclass must get
    the verdict of the keyword form.  kind: 'iban' (flag = validate_bban) or 'bic' (flag = enforce_swift_compliance)."""
    S = lib()
    sub = subclasses()
    if kind == "iban":
        # (the constructors themselves only take their flags as keywords on the unchanged tree - Base.__new__ -
        # so positional constructor calls are not a documented form; validate() and from_bban() are)
        forms = [("helper_subclass", lambda: sub["HelperIBAN"](text, validate_bban=flag)),
                 ("positional_validate", lambda: S.IBAN(text, allow_invalid=True).validate(flag)),
                 ("subclass_validate", lambda: sub["HelperIBAN"](text, allow_invalid=True).validate(validate_bban=flag))]
        if flag:
            forms.append(("strict_subclass", lambda: sub["StrictIBAN"](text)))
        else:
            forms.append(("subclass_is_valid", lambda: sub["HelperIBAN"](text, allow_invalid=True).is_valid or (_ for _ in ()).throw(ValueError("is_valid False"))))
    else:
        forms = [("helper_subclass", lambda: sub["HelperBIC"](text, enforce_swift_compliance=flag)),
                 ("positional_validate", lambda: S.BIC(text, allow_invalid=True).validate(flag))]
        if flag:
            forms.append(("strict_subclass", lambda: sub["SwiftBIC"](text)))
    # the switch given as another truthy / falsy value than the bool singletons (1 / 0, a bool-like object)
    tv = _Truthy(flag)
    if kind == "iban":
        forms += [("flag_as_int", lambda: S.IBAN(text, validate_bban=int(flag))), ("flag_as_bool_like_object", lambda: S.IBAN(text, allow_invalid=True).validate(validate_bban=tv)),
                  ("allow_invalid_as_zero", lambda: S.IBAN(text, allow_invalid=0, validate_bban=flag))]
    else:
        forms += [("flag_as_int", lambda: S.BIC(text, enforce_swift_compliance=int(flag))), ("flag_as_bool_like_object", lambda: S.BIC(text, allow_invalid=True).validate(enforce_swift_compliance=tv)),
                  ("allow_invalid_as_zero", lambda: S.BIC(text, allow_invalid=0, enforce_swift_compliance=flag))]
    for name, f in forms:
        o = observe(f)
        if o.ok != o_ref.ok:
            mon.viol(f"{kind}:call_form_changes_verdict:{name}", w, o_ref.brief(), o.brief())


def wrapped_inputs_agree(mon, ctor, o_ctor, o_unv, text, kw, w, tag):
    """The same text handed over as an (unvalidated) library object, as an object that was validated under
    the *default* flags, or as another str subclass must be judged like the plain string."""
    plain = observe(ctor, text) if kw else o_ctor
    for name, arg in (("unvalidated_object", o_unv.value if o_unv.ok else None), ("str_subclass", _Text(text)),
                      ("str_subclass_with_own_str", _Masked(text)), ("str_enum_member", _enum_member(text)),
                      ("object_validated_with_default_flags", plain.value if plain.ok else None)):
        if arg is None:
            continue
        o = observe(ctor, arg, **kw)
        if o.ok != o_ctor.ok:
            mon.viol(f"{tag}:text_passed_as_{name}_judged_differently", w, o_ctor.brief(), o.brief())


def repeated_validation_consistent(mon, text, o_ctor_flag, w, tag="iban"):
    """One object validated repeatedly / first without and then with national validation must end up with
    the verdict of a fresh IBAN(text, validate_bban=True)."""
    S = lib()
    for route in ("twice", "plain_then_flag", "validated_object_then_flag"):
        obj = observe(S.IBAN, text, allow_invalid=(route != "validated_object_then_flag"))
        if not obj.ok:
            continue
        if route == "twice":
            observe(obj.value.validate, validate_bban=True)
        elif route == "plain_then_flag":
            observe(obj.value.validate)
            observe(lambda: obj.value.is_valid)
        o = observe(obj.value.validate, validate_bban=True)
        if o.ok != o_ctor_flag.ok:
            mon.viol(f"{tag}:repeated_validation_changes_verdict:{route}", w, o_ctor_flag.brief(), o.brief())


def judge_iban_accept(mon: Mon, text: str, table, tag: str):
    """C01: accept/reject against R-IBAN, shape of accepted objects, agreement of the three entry
    points.  Returns the expectation."""
    exp = R.expect_iban(text, table)
    o_ctor, o_unv, o_val, o_isv = iban_three_ways(text)
    mon.ev()
    w = {"text": esc(text), "family": tag, "nonascii": nonascii_kind(text)}
    mon.tally(f"oracle_{exp.verdict}")
    if not o_unv.ok:
        mon.viol("unvalidated_constructor_raised", w, "IBAN(text, allow_invalid=True) returns", o_unv.brief())
        return exp
    acc = o_ctor.ok
    if exp.verdict != R.DONT_CARE:
        mon.distinct(("iban", exp.norm, tag.split(":")[0]))
        if acc and exp.verdict == R.REJECT:
            mon.viol(
                "false_accept:" + "+".join(sorted(exp.defects)),
                w, {"verdict": "REJECT", "defects": sorted(exp.defects)}, o_ctor.brief(),
            )
        elif not acc and exp.verdict == R.ACCEPT:
            mon.viol("false_reject:" + o_ctor.exc_name, w, "ACCEPT", o_ctor.brief())
    if acc:
        mon.tally("lib_accept")
        s = str(o_ctor.value)
        if not (len(s) <= 34 and R.is_ascii_alnum_upper(s)):
            mon.viol("accepted_form_not_ascii_upper_alnum_le34", w, "[A-Z0-9]{<=34}", esc(s))
    else:
        mon.tally("lib_reject")
    wrapped_inputs_agree(mon, lib().IBAN, o_ctor, o_unv, text, {}, w, "iban")
    if mon.evaluations % 7 == 0 or acc:
        call_forms_agree(mon, "iban", text, False, o_ctor, w)
    # entry points must agree on accept / reject
    v_val = o_val.ok
    if v_val != acc:
        mon.viol("entry_points_disagree:ctor_vs_validate", w, o_ctor.brief(), o_val.brief())
    if not o_isv.ok:
        mon.viol("is_valid_raised:" + o_isv.exc_name, w, "True/False", o_isv.brief())
    elif bool(o_isv.value) != acc:
        mon.viol("entry_points_disagree:ctor_vs_is_valid", w, o_ctor.brief(), o_isv.brief())
    return exp


def judge_iban_total(mon: Mon, text: str, table, tag: str, validate_bban: bool = False, nat=None):
    """C05: totality, is_valid never raises, ctor <=> is_valid, error class names a present defect.
    `nat`: optional callable(norm) -> 'ACCEPT'|'REJECT'|'DONT_CARE' for the national layer."""
    exp = R.expect_iban(text, table)
    o_ctor, o_unv, o_val, o_isv = iban_three_ways(text, validate_bban)
    mon.ev()
    k = nonascii_kind(text)
    w = {"text": esc(text), "family": tag, "validate_bban": validate_bban, "nonascii": k}
    if not o_unv.ok:
        mon.viol("unvalidated_constructor_raised:" + o_unv.exc_name, w, "returns", o_unv.brief())
        return exp
    for name, o in (("ctor", o_ctor), ("validate", o_val)):
        if not o.ok and not is_lib_exc(o.exc):
            mon.viol(f"escape:{name}:{o.exc_name}", w, "only SchwiftyException subclasses", o.brief())
    if not o_isv.ok:
        mon.viol(f"is_valid_raised:{o_isv.exc_name}", w, "True/False", o_isv.brief())
    wrapped_inputs_agree(mon, lib().IBAN, o_ctor, o_unv, text, {"validate_bban": True} if validate_bban else {}, w, "iban")
    if mon.evaluations % 5 == 0 or o_ctor.ok:
        call_forms_agree(mon, "iban", text, bool(validate_bban), o_ctor, w)
    # ctor (with flag) <=> validate (with flag); ctor without flag <=> is_valid
    if o_ctor.ok != o_val.ok:
        mon.viol("ctor_vs_validate_disagree", w, o_ctor.brief(), o_val.brief())
    if not validate_bban and o_isv.ok and bool(o_isv.value) != o_ctor.ok:
        mon.viol("ctor_vs_is_valid_disagree", w, o_ctor.brief(), o_isv.brief())
    if validate_bban and o_isv.ok and o_ctor.ok and not o_isv.value:
        mon.viol("national_accept_but_is_valid_false", w, o_ctor.brief(), o_isv.brief())
    if validate_bban and exp.verdict == R.ACCEPT:
        repeated_validation_consistent(mon, text, o_ctor, w)
    mon.distinct(("iban5", exp.norm, validate_bban))
    # class of the error vs defects present
    for name, o in (("ctor", o_ctor), ("validate", o_val)):
        if o.ok or not is_lib_exc(o.exc):
            continue
        cls = o.exc_name
        names = o.exc_names
        mon.tally("raised_" + cls)
        if exp.verdict == R.DONT_CARE:
            continue
        allowed = set(exp.allowed)
        if not exp.defects:
            # structurally fine: only the national layer may object, and only when asked to
            if validate_bban:
                natv = nat(exp.norm) if nat else R.DONT_CARE
                if natv != R.ACCEPT:
                    allowed |= {"InvalidBBANChecksum", "InvalidAccountCode"}
            if not (names & allowed):
                mon.viol(f"error_without_defect:{cls}", w, "no defect present", o.brief())
        elif not (names & allowed):
            mon.viol(
                f"error_class_names_absent_defect:{cls}:present={'+'.join(sorted(exp.defects))}",
                w, sorted(allowed), o.brief(),
            )
    return exp


def bic_ways(text: str, strict: bool):
    S = lib()
    kw = {"enforce_swift_compliance": True} if strict else {}
    o_ctor = observe(S.BIC, text, **kw)
    o_unv = observe(S.BIC, text, allow_invalid=True)
    o_val = o_isv = None
    if o_unv.ok:
        o_val = observe(o_unv.value.validate, **kw)
        o_isv = observe(lambda: o_unv.value.is_valid)
    return o_ctor, o_unv, o_val, o_isv


def judge_bic(mon: Mon, text: str, strict: bool, tag: str, prop_mode: str = "accept"):
    """prop_mode 'accept' (C04) or 'total' (C05)."""
    exp = R.expect_bic(text, strict)
    o_ctor, o_unv, o_val, o_isv = bic_ways(text, strict)
    mon.ev()
    k = nonascii_kind(text)
    w = {"text": esc(text), "strict": strict, "family": tag, "nonascii": k}
    if not o_unv.ok:
        mon.viol("unvalidated_constructor_raised:" + o_unv.exc_name, w, "returns", o_unv.brief())
        return exp
    acc = o_ctor.ok
    mon.tally(f"oracle_{exp.verdict}")
    mon.tally("lib_accept" if acc else "lib_reject")
    wrapped_inputs_agree(mon, lib().BIC, o_ctor, o_unv, text, {"enforce_swift_compliance": True} if strict else {}, w, "bic")
    if mon.evaluations % 5 == 0 or acc:
        call_forms_agree(mon, "bic", text, bool(strict), o_ctor, w)
    if prop_mode == "accept":
        if exp.verdict != R.DONT_CARE:
            mon.distinct(("bic", exp.norm, strict))
            if acc and exp.verdict == R.REJECT:
                pos = "tail" if (len(exp.norm) == 11 and not R.is_ascii_alnum_upper(exp.norm[8:]) and R.is_ascii_alnum_upper(exp.norm[:8])) else "body"
                mon.viol(f"false_accept:{'+'.join(sorted(exp.defects))}:{pos}", w, {"verdict": "REJECT", "defects": sorted(exp.defects)}, o_ctor.brief())
            elif not acc and exp.verdict == R.ACCEPT:
                mon.viol("false_reject:" + o_ctor.exc_name, w, "ACCEPT", o_ctor.brief())
        if acc:
            s = str(o_ctor.value)
            if not (len(s) in (8, 11) and R.is_ascii_alnum_upper(s)):
                mon.viol("accepted_form_not_ascii_upper_alnum", w, "[A-Z0-9]{8|11}", esc(s))
        if o_val.ok != acc:
            mon.viol("entry_points_disagree:ctor_vs_validate", w, o_ctor.brief(), o_val.brief())
        if not o_isv.ok:
            mon.viol(f"is_valid_raised:{o_isv.exc_name}", w, "True/False", o_isv.brief())
        elif not strict and bool(o_isv.value) != acc:
            mon.viol("entry_points_disagree:ctor_vs_is_valid", w, o_ctor.brief(), o_isv.brief())
        elif strict and acc and not o_isv.value:
            mon.viol("strict_accept_but_is_valid_false", w, o_ctor.brief(), o_isv.brief())
    else:
        mon.distinct(("bic5", exp.norm, strict))
        for name, o in (("ctor", o_ctor), ("validate", o_val)):
            if not o.ok and not is_lib_exc(o.exc):
                mon.viol(f"escape:bic_{name}:{o.exc_name}", w, "only SchwiftyException subclasses", o.brief())
        if not o_isv.ok:
            mon.viol(f"is_valid_raised:bic:{o_isv.exc_name}", w, "True/False", o_isv.brief())
        if o_ctor.ok != o_val.ok:
            mon.viol("bic_ctor_vs_validate_disagree", w, o_ctor.brief(), o_val.brief())
        if not strict and o_isv.ok and bool(o_isv.value) != o_ctor.ok:
            mon.viol("bic_ctor_vs_is_valid_disagree", w, o_ctor.brief(), o_isv.brief())
        for name, o in (("ctor", o_ctor), ("validate", o_val)):
            if o.ok or not is_lib_exc(o.exc):
                continue
            mon.tally("raised_bic_" + o.exc_name)
            if exp.verdict == R.DONT_CARE:
                continue
            if not exp.defects:
                mon.viol(f"bic_error_without_defect:{o.exc_name}", w, "no defect present", o.brief())
            elif not (o.exc_names & set(exp.allowed)):
                mon.viol(
                    f"bic_error_class_names_absent_defect:{o.exc_name}:present={'+'.join(sorted(exp.defects))}",
                    w, sorted(exp.allowed), o.brief(),
                )
    return exp
