"""Which environment variables does the package under test read?   python -m vf.mon.envwatch  ->  JSON list

A monitor on os._Environ.__getitem__ (which get(), `in`, os.getenv() all go through) records every key that is
looked up while a frame of the package under test is on the stack: during import, during the prelude (every
public entry point once) and during a handful of validations.  The orchestrator uses the names to start copies
of a shard with those variables set to "off" values (vf/run.py)."""
from __future__ import annotations

import json
import os
import sys


def main():
    from vf import env  # noqa: PLC0415

    pkg = os.path.realpath(env.PKG) + os.sep
    seen: set = set()
    cls = type(os.environ)
    orig = cls.__getitem__

    def getitem(self, key):
        try:
            f = sys._getframe(1)
            depth = 0
            while f is not None and depth < 12:
                if os.path.realpath(f.f_code.co_filename).startswith(pkg):
                    if isinstance(key, str):
                        seen.add(key)
                    break
                f = f.f_back
                depth += 1
        except Exception:  # noqa: BLE001, S110
            pass
        return orig(self, key)

    cls.__getitem__ = getitem
    try:
        from vf import judge  # noqa: PLC0415

        S = judge.lib()
        judge.prelude()
        for f in (lambda: S.BIC("1234DEWW"), lambda: S.BIC("DEUTDEFF", enforce_swift_compliance=True), lambda: S.BIC("x", allow_invalid=True).is_valid,
                  lambda: S.IBAN("DE89370400440532013000", validate_bban=True), lambda: S.IBAN("DE00", allow_invalid=True).is_valid, lambda: S.IBAN("GB29NWBK60161331926819").bic,
                  lambda: S.BIC.from_bank_code("DE", "37040044"), lambda: S.IBAN.random("NO"), lambda: S.IBAN.generate("BE", "539", "0075470")):
            try:
                f()
            except Exception:  # noqa: BLE001, S110
                pass
    finally:
        cls.__getitem__ = orig
    print(json.dumps(sorted(k for k in seen if not k.startswith("PYTHON"))))


if __name__ == "__main__":
    main()
