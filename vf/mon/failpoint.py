"""Source-free failpoints on sys.monitoring (C15): abort a call at its K-th executed line.

A LINE callback counts the lines executed in code objects of the package under test by the arming thread and
raises `Abort` (a BaseException, like KeyboardInterrupt or a time-out delivered as an asynchronous exception:
`except Exception` blocks of the library do not swallow it) at the K-th one.  The exception surfaces in the
library code at that line and unwinds through it; the harness catches it outside the call."""
from __future__ import annotations

import os
import sys
import threading

TOOL = 3


class Abort(BaseException):
    pass


class Failpoints:
    def __init__(self, pkg_dir: str):
        self.pkg = os.path.realpath(pkg_dir) + os.sep
        self._files: dict = {}
        self.armed_at = 0
        self.count = 0
        self.tid = None
        self.fired = False

    def install(self):
        m = sys.monitoring
        m.use_tool_id(TOOL, "vf-failpoint")
        m.register_callback(TOOL, m.events.LINE, self._on_line)
        m.set_events(TOOL, m.events.LINE)

    def uninstall(self):
        m = sys.monitoring
        m.set_events(TOOL, 0)
        m.register_callback(TOOL, m.events.LINE, None)
        m.free_tool_id(TOOL)

    def _mine(self, code) -> bool:
        fn = code.co_filename
        r = self._files.get(fn)
        if r is None:
            r = os.path.realpath(fn).startswith(self.pkg)
            self._files[fn] = r
        return r

    def _on_line(self, code, line):
        if not self._mine(code):
            return sys.monitoring.DISABLE
        if self.tid == threading.get_ident():
            self.count += 1
            if self.armed_at and self.count == self.armed_at:
                self.fired = True
                self.armed_at = 0
                raise Abort(f"aborted at line {line} of {code.co_name}")
        return None

    def run(self, thunk, k: int):
        """Run thunk with an abort at its k-th package line (k = 0: no abort, just count).  Returns
        (aborted, lines_executed, result_or_None)."""
        sys.monitoring.restart_events()
        self.tid, self.count, self.armed_at, self.fired = threading.get_ident(), 0, k, False
        try:
            res = thunk()
            return False, self.count, res
        except Abort:
            return True, self.count, None
        finally:
            self.armed_at = 0
            self.tid = None
