"""pytest plugin (-p vf.mon.pytest_contracts): run the repository's own test-suite with the contract layer
on.  Writes counts and violations to the file named by VF_CONTRACT_OUT at session end."""
from __future__ import annotations

import json
import os


def pytest_configure(config):
    from vf import env  # noqa: PLC0415

    S = env.use_repo()
    from vf.mon import contracts  # noqa: PLC0415

    config._vf_installed = contracts.install(S)


def pytest_runtest_makereport(item, call):
    if call.excinfo is not None and call.excinfo.typename == "ContractBroken":
        from vf.mon import contracts  # noqa: PLC0415

        contracts._viol("raised_in_test:" + item.nodeid, "C??", {"test": item.nodeid}, "contract holds", str(call.excinfo.value)[:200])


def pytest_sessionfinish(session, exitstatus):
    from vf.mon import contracts  # noqa: PLC0415

    out = os.environ.get("VF_CONTRACT_OUT")
    if out:
        with open(out, "w", encoding="utf-8") as fp:
            json.dump({"counts": contracts.COUNTS, "violations": contracts.VIOLATIONS, "installed": getattr(session.config, "_vf_installed", []), "exitstatus": int(exitstatus)}, fp)
