"""Deterministic thread scheduler on sys.monitoring (C14).

Exactly one worker holds the token.  Every monitored event (LINE or INSTRUCTION in code objects of the
package under test) executed by a worker is a *step*.  A schedule is a set of (worker, step) preemption
points at which the token is handed to the next unfinished worker.  A worker that does not progress
within a grace period is treated as blocked on a real lock held by a preempted worker: a waiting worker
takes the token back, the schedule is tagged `degraded`; no verdict is derived from the time-out."""
from __future__ import annotations

import os
import sys
import threading
import time

TOOL = 4


class Scheduler:
    def __init__(self, pkg_dir: str, granularity: str = "line", grace: float = 0.005, extra_roots=()):
        self.pkg = os.path.realpath(pkg_dir) + os.sep
        # code of third-party packages the library calls into can be made part of the stepped code as well (their
        # loops then offer preemption points; used for first-use trials around lazily loaded third-party data)
        self.roots = (self.pkg,) + tuple(os.path.realpath(r) + os.sep for r in extra_roots)
        self.gran = granularity
        self.grace = grace
        self.cv = threading.Condition()
        self.active = False
        self._files: dict = {}
        self.tid: dict = {}
        self.installed = False
        self.focus = None

    # ---- monitoring plumbing
    def install(self):
        m = sys.monitoring
        m.use_tool_id(TOOL, "vf-sched")
        ev = m.events.LINE if self.gran == "line" else m.events.INSTRUCTION
        self._ev = ev
        m.register_callback(TOOL, ev, self._on_line if self.gran == "line" else self._on_instr)
        self._extra = 0
        if self.gran == "line":
            # generator / comprehension bodies loop on one source line: their resumptions and yields are steps
            # too (each of them is a point where the interpreter can switch threads)
            self._extra = m.events.PY_RESUME | m.events.PY_YIELD
            m.register_callback(TOOL, m.events.PY_RESUME, self._on_resume)
            m.register_callback(TOOL, m.events.PY_YIELD, self._on_yield)
        m.set_events(TOOL, ev | self._extra)
        self.installed = True

    def uninstall(self):
        m = sys.monitoring
        m.set_events(TOOL, 0)
        m.register_callback(TOOL, self._ev, None)
        if self._extra:
            m.register_callback(TOOL, m.events.PY_RESUME, None)
            m.register_callback(TOOL, m.events.PY_YIELD, None)
        m.free_tool_id(TOOL)
        self.installed = False

    def _mine(self, code) -> bool:
        fn = code.co_filename
        r = self._files.get(fn)
        if r is None:
            r = os.path.realpath(fn).startswith(self.roots)
            self._files[fn] = r
        return r

    def _on_line(self, code, line):
        if not self._mine(code):
            return sys.monitoring.DISABLE
        if self.active:
            w = self.tid.get(threading.get_ident())
            if w is not None:
                self._step(w, code, line)
        return None

    def _on_resume(self, code, offset):
        if not self._mine(code):
            return sys.monitoring.DISABLE
        if self.active:
            w = self.tid.get(threading.get_ident())
            if w is not None:
                self._step(w, code, ("resume", offset))
        return None

    def _on_yield(self, code, offset, retval):
        if not self._mine(code):
            return sys.monitoring.DISABLE
        if self.active:
            w = self.tid.get(threading.get_ident())
            if w is not None:
                self._step(w, code, ("yield", offset))
        return None

    def _on_instr(self, code, offset):
        if not self._mine(code):
            return sys.monitoring.DISABLE
        if self.active:
            w = self.tid.get(threading.get_ident())
            if w is not None:
                self._step(w, code, offset)
        return None

    # ---- scheduling
    def _step(self, w, code, where):
        self.steps[w] += 1
        self.progress += 1
        k = self.steps[w]
        if self.trace is not None:
            self.trace.append((w, code.co_name, where))
        if self.focus is not None:
            fn = code.co_filename
            hit = self._focus_files.get(fn)
            if hit is None:
                hit = self._focus_files[fn] = self.focus in fn.replace(os.sep, "/")
            if hit:
                self.fsteps[w] += 1
                if (w, self.fsteps[w]) in self.preempt_focus:
                    self._handoff(w)
        if (w, k) in self.preempt:
            self._handoff(w)
        if self.turn != w:
            self._wait_turn(w)

    def _next_unfinished(self, after):
        n = len(self.done)
        for d in range(1, n + 1):
            c = (after + d) % n
            if not self.done[c]:
                return c
        return None

    def _handoff(self, w):
        with self.cv:
            nxt = self._next_unfinished(w)
            if nxt is not None and nxt != w:
                self.turn = nxt
                self.switches += 1
                self.cv.notify_all()

    def _wait_turn(self, w):
        with self.cv:
            while self.turn != w:
                seen = self.progress
                if not self.cv.wait(self.grace):
                    if self.progress == seen and self.turn != w and not self.done[self.turn]:
                        # the holder made no step for a whole grace period: presumed blocked on a lock
                        self.degraded = True
                        self.turn = w
                        self.cv.notify_all()
                        break

    def run(self, thunks, first=0, preempt=(), trace=False, timeout=20.0, focus=None, preempt_focus=()):
        """Run the thunks concurrently under the schedule.  Returns dict(results, steps, degraded, ...).
        `focus` names a path fragment: steps in files whose path contains it are counted separately and
        `preempt_focus` places preemption points on that count (the K-th step inside those files)."""
        n = len(thunks)
        self.focus = focus
        self._focus_files = {}
        self.fsteps = [0] * n
        self.preempt_focus = set(preempt_focus)
        self.steps = [0] * n
        self.done = [False] * n
        self.preempt = set(preempt)
        self.turn = first
        self.progress = 0
        self.switches = 0
        self.degraded = False
        self.trace = [] if trace else None
        results = [None] * n
        self.tid = {}

        def body(w):
            self.tid[threading.get_ident()] = w
            self._wait_turn(w)
            try:
                results[w] = thunks[w]()
            except BaseException as e:  # noqa: BLE001
                results[w] = ["harness-exc", type(e).__name__, str(e)[:200]]
            finally:
                with self.cv:
                    self.done[w] = True
                    self.progress += 1
                    if self.turn == w:
                        nxt = self._next_unfinished(w)
                        if nxt is not None:
                            self.turn = nxt
                    self.cv.notify_all()

        threads = [threading.Thread(target=body, args=(w,), daemon=True) for w in range(n)]
        sys.monitoring.restart_events()
        self.active = True
        t0 = time.time()
        for t in threads:
            t.start()
        hung = False
        for t in threads:
            t.join(max(0.1, timeout - (time.time() - t0)))
            if t.is_alive():
                hung = True
        self.active = False
        return {"results": results, "steps": list(self.steps), "degraded": self.degraded, "switches": self.switches, "hung": hung, "trace": self.trace, "focus_steps": list(self.fsteps)}
