"""Reach counters: sys.monitoring LINE events on the package's code objects, each location
disabled after its first hit (cheap).  Reports executed lines per file and per function."""
from __future__ import annotations

import os
import sys

TOOL = 3  # sys.monitoring tool id (0-5); 3 is unassigned by convention


class Reach:
    def __init__(self, pkg_dir: str):
        self.pkg = os.path.realpath(pkg_dir) + os.sep
        self.hits: dict[tuple[str, str], set[int]] = {}
        self._fn_cache: dict[str, str | None] = {}

    def _rel(self, filename: str):
        r = self._fn_cache.get(filename)
        if r is None and filename not in self._fn_cache:
            real = os.path.realpath(filename)
            r = real[len(self.pkg):] if real.startswith(self.pkg) else None
            self._fn_cache[filename] = r
        return r

    def _line(self, code, line):
        rel = self._rel(code.co_filename)
        if rel is not None:
            self.hits.setdefault((rel, code.co_qualname), set()).add(line)
        return sys.monitoring.DISABLE

    def start(self):
        m = sys.monitoring
        m.use_tool_id(TOOL, "vf-reach")
        m.register_callback(TOOL, m.events.LINE, self._line)
        m.set_events(TOOL, m.events.LINE)

    def stop(self):
        m = sys.monitoring
        m.set_events(TOOL, 0)
        m.register_callback(TOOL, m.events.LINE, None)
        m.free_tool_id(TOOL)

    def report(self) -> dict:
        per_file: dict[str, int] = {}
        funcs: dict[str, int] = {}
        for (rel, qual), lines in self.hits.items():
            per_file[rel] = per_file.get(rel, 0) + len(lines)
            funcs[f"{rel}:{qual}"] = len(lines)
        return {"lines_per_file": per_file, "lines_per_function": funcs}
