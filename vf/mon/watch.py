"""Registry write barrier, fingerprint and write-open audit hook (C15; also usable elsewhere)."""
from __future__ import annotations

import hashlib
import os
import sys
import traceback

EVENTS: list = []
CONTEXT = {"call": None}


_REGISTRY_IDS: set = set()


def _log(kind, obj):
    if id(obj) not in _REGISTRY_IDS:
        return  # a copy of a registry object (copy.deepcopy, dict(x) ...) being built or edited: not the registry
    st = traceback.extract_stack(limit=8)[:-2]
    frames = [f"{os.path.basename(f.filename)}:{f.lineno}:{f.name}" for f in st[-4:]]
    EVENTS.append({"mutator": kind, "type": type(obj).__name__, "call": CONTEXT["call"], "stack": frames})


def _mk(base, names):
    ns = {}
    for n in names:
        def make(n=n):
            orig = getattr(base, n)

            def f(self, *a, **kw):
                _log(n, self)
                return orig(self, *a, **kw)

            f.__name__ = n
            return f

        ns[n] = make()
    return ns


WDict = type("WDict", (dict,), _mk(dict, ["__setitem__", "__delitem__", "pop", "popitem", "setdefault", "update", "clear", "__ior__"]))
WList = type("WList", (list,), _mk(list, ["__setitem__", "__delitem__", "append", "extend", "insert", "remove", "pop", "sort", "reverse", "clear", "__iadd__", "__imul__"]))


def wrap(obj, memo):
    i = id(obj)
    if i in memo:
        return memo[i][1]
    if type(obj) is dict:
        w = WDict()
        memo[i] = (obj, w)
        for k, v in obj.items():
            dict.__setitem__(w, k, wrap(v, memo))
        return w
    if type(obj) is list:
        w = WList()
        memo[i] = (obj, w)
        for v in obj:
            list.append(w, wrap(v, memo))
        return w
    return obj


def install(registry_module):
    """Deep-convert every cached registry into write-barrier subclasses (sharing preserved)."""
    memo: dict = {}
    reg = registry_module._registry
    for name in list(reg):
        if not isinstance(reg[name], (WDict, WList)):  # idempotent: registries loaded lazily are wrapped later
            reg[name] = wrap(reg[name], memo)
    for _orig, wrapped in memo.values():
        _REGISTRY_IDS.add(id(wrapped))
    return len(memo)


def _canon(obj, out):
    if isinstance(obj, dict):
        out.append("{")
        for k in sorted(obj, key=repr):
            out.append(repr(k))
            out.append(":")
            _canon(obj[k], out)
            out.append(",")
        out.append("}")
    elif isinstance(obj, (list, tuple)):
        out.append("[")
        for v in obj:
            _canon(v, out)
            out.append(",")
        out.append("]")
    elif hasattr(obj, "pattern") and hasattr(obj, "flags"):
        out.append(f"re({obj.pattern!r},{obj.flags})")
    else:
        out.append(repr(obj))


def _json_default(o):
    if hasattr(o, "pattern") and hasattr(o, "flags"):
        return f"re({o.pattern!r},{o.flags})"
    return repr(o)


def fingerprint(registry_module) -> dict:
    """Canonical SHA-256 per cached registry (dict key order ignored, list order kept)."""
    import json  # noqa: PLC0415

    res = {}
    for name in sorted(registry_module._registry, key=repr):
        val = registry_module._registry[name]
        try:
            if isinstance(val, dict) and any(not isinstance(k, str) for k in val):
                val = {repr(k): v for k, v in val.items()}
            txt = json.dumps(val, sort_keys=True, default=_json_default, ensure_ascii=True)
        except (TypeError, ValueError):
            out: list = []
            _canon(registry_module._registry[name], out)
            txt = "".join(out)
        res[repr(name)] = hashlib.sha256(txt.encode("utf-8", "surrogatepass")).hexdigest()
    return res


def files_fingerprint(pkg_dir: str) -> str:
    h = hashlib.sha256()
    for sub in ("iban_registry", "bank_registry"):
        d = os.path.join(pkg_dir, sub)
        for n in sorted(os.listdir(d)):
            p = os.path.join(d, n)
            if os.path.isfile(p):
                h.update(n.encode())
                with open(p, "rb") as fp:
                    h.update(fp.read())
    return h.hexdigest()


WRITE_OPENS: list = []


def install_audit(pkg_dir: str):
    root = os.path.realpath(pkg_dir) + os.sep

    def hook(event, args):
        if event != "open":
            return
        try:
            path, mode = args[0], args[1]
            if not isinstance(path, (str, bytes, os.PathLike)):
                return
            mode = mode or "r"
            flags = args[2] if len(args) > 2 else 0
            writing = any(c in str(mode) for c in "wax+") or (isinstance(flags, int) and flags & (os.O_WRONLY | os.O_RDWR | os.O_CREAT | os.O_TRUNC | os.O_APPEND))
            if writing and os.path.realpath(os.fsdecode(path)).startswith(root):
                WRITE_OPENS.append({"path": os.fsdecode(path), "mode": str(mode), "call": CONTEXT["call"]})
        except Exception:  # noqa: BLE001
            pass

    sys.addaudithook(hook)
