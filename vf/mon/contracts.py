"""Contract layer: run-time contracts attached to the real functions of the library, so that *internal*
invocations are judged as well (the IBAN built inside random/generate/from_bban, the BICs built inside
candidates_from_bank_code, merge_dicts at import of a scratch package ...).

icontract (installed into /verif/.deps by bin/setup, or on demand) carries the postconditions that only
look at results; raising paths are judged by hand-written wrappers because icontract does not look at
raises.  Every contract counts its evaluations: zero evaluations => that contract is inconclusive."""
from __future__ import annotations

import copy
import fcntl
import functools
import os
import subprocess
import sys

from vf import env
from vf.lib import esc
from vf.ref import data
from vf.ref import iban as R

COUNTS: dict = {}
VIOLATIONS: list = []
MAX_V = 30


def _count(name):
    COUNTS[name] = COUNTS.get(name, 0) + 1


def _viol(contract, prop, witness, expected, observed):
    if len(VIOLATIONS) < MAX_V:
        VIOLATIONS.append({"contract": contract, "property": prop, "witness": witness, "expected": expected, "observed": observed})


def ensure_icontract():
    deps = os.path.join(env.VERIF, ".deps")
    if deps not in sys.path:
        sys.path.insert(0, deps)
    try:
        import icontract  # noqa: PLC0415

        return icontract
    except ImportError:
        pass
    os.makedirs(deps, exist_ok=True)
    try:
        with open(os.path.join(deps, ".lock"), "w") as lk:
            fcntl.flock(lk, fcntl.LOCK_EX)
            try:
                subprocess.run([env.PY, "-m", "pip", "install", "--quiet", "--no-index", "--find-links", "/opt/veriftools/wheels", "--target", deps, "icontract"],
                               capture_output=True, timeout=300)
            finally:
                fcntl.flock(lk, fcntl.LOCK_UN)
        import importlib  # noqa: PLC0415

        importlib.invalidate_caches()
        import icontract  # noqa: PLC0415

        return icontract
    except Exception:  # noqa: BLE001
        return None


class ContractBroken(AssertionError):
    pass


def install(S, which=("iban", "bic", "nat", "merge", "formatted")):
    """Attach the contracts.  Returns the list of installed contract names."""
    from schwifty import exceptions as X  # noqa: PLC0415

    ic = ensure_icontract()
    installed = []
    table = data.countries()

    if "iban" in which:
        orig = S.IBAN.__init__

        @functools.wraps(orig)
        def iban_init(self, iban, allow_invalid=False, validate_bban=False):
            _count("IBAN.__init__")
            try:
                orig(self, iban, allow_invalid, validate_bban)
            except Exception as e:  # noqa: BLE001
                text = str(self)
                if not isinstance(e, X.SchwiftyException):
                    _viol("IBAN.__init__:only_library_errors", "C05", {"text": esc(text)}, "SchwiftyException", [type(e).__name__, str(e)[:120]])
                elif not allow_invalid:
                    exp = R.expect_iban(text, table)
                    if exp.verdict == R.ACCEPT and not validate_bban:
                        _viol("IBAN.__init__:no_false_reject", "C01", {"text": esc(text)}, "ACCEPT", [type(e).__name__, str(e)[:120]])
                    elif exp.verdict == R.REJECT and not ({c.__name__ for c in type(e).__mro__} & set(exp.allowed)):
                        _viol("IBAN.__init__:error_names_present_defect", "C05", {"text": esc(text), "defects": sorted(exp.defects)}, sorted(exp.allowed), type(e).__name__)
                raise
            if not allow_invalid:
                text = str(self)
                exp = R.expect_iban(text, table)
                if exp.verdict == R.REJECT:
                    _viol("IBAN.__init__:no_false_accept", "C01", {"text": esc(text), "defects": sorted(exp.defects)}, "REJECT", "accepted")
                if any(c.isspace() for c in text) or any("a" <= c <= "z" for c in text):
                    _viol("IBAN.__init__:compact_form_clean", "C10", {"text": esc(text)}, "no whitespace / lower case", esc(text))
            bb = getattr(self, "bban", None)
            if bb is None or self.country_code + self.checksum_digits + str(bb) != str(self) and len(str(self)) >= 4:
                _viol("IBAN.__init__:parts_concatenate", "C11", {"text": esc(str(self))}, str(self), [self.country_code, self.checksum_digits, str(bb)])

        S.IBAN.__init__ = iban_init
        installed.append("IBAN.__init__")

    if "bic" in which:
        orig_b = S.BIC.__init__

        @functools.wraps(orig_b)
        def bic_init(self, bic, allow_invalid=False, enforce_swift_compliance=False):
            _count("BIC.__init__")
            try:
                orig_b(self, bic, allow_invalid, enforce_swift_compliance)
            except Exception as e:  # noqa: BLE001
                text = str(self)
                if not isinstance(e, X.SchwiftyException):
                    _viol("BIC.__init__:only_library_errors", "C05", {"text": esc(text)}, "SchwiftyException", [type(e).__name__, str(e)[:120]])
                elif not allow_invalid:
                    exp = R.expect_bic(text, enforce_swift_compliance)
                    if exp.verdict == R.ACCEPT:
                        _viol("BIC.__init__:no_false_reject", "C04", {"text": esc(text)}, "ACCEPT", [type(e).__name__, str(e)[:120]])
                    elif exp.verdict == R.REJECT and not ({c.__name__ for c in type(e).__mro__} & set(exp.allowed)):
                        _viol("BIC.__init__:error_names_present_defect", "C05", {"text": esc(text), "defects": sorted(exp.defects)}, sorted(exp.allowed), type(e).__name__)
                raise
            if not allow_invalid:
                text = str(self)
                exp = R.expect_bic(text, enforce_swift_compliance)
                if exp.verdict == R.REJECT:
                    _viol("BIC.__init__:no_false_accept", "C04", {"text": esc(text), "defects": sorted(exp.defects)}, "REJECT", "accepted")

        S.BIC.__init__ = bic_init
        installed.append("BIC.__init__")

    if "nat" in which:
        def result_is_true(result):
            _count("BBAN.validate_national_checksum")
            return result is True

        f = S.BBAN.validate_national_checksum
        if ic is not None:
            S.BBAN.validate_national_checksum = ic.ensure(result_is_true, error=lambda result: ContractBroken(f"validate_national_checksum returned {result!r}"))(f)
        else:
            @functools.wraps(f)
            def nat(self):
                r = f(self)
                if not result_is_true(r):
                    raise ContractBroken(f"validate_national_checksum returned {r!r}")
                return r

            S.BBAN.validate_national_checksum = nat
        installed.append("BBAN.validate_national_checksum")

    if "merge" in which:
        from schwifty import registry  # noqa: PLC0415

        g = registry.merge_dicts

        @functools.wraps(g)
        def merge(left, right, *a, **kw):
            _count("registry.merge_dicts")
            l0, r0 = copy.deepcopy(left), copy.deepcopy(right)
            out = g(left, right, *a, **kw)
            want = data.deep_merge(l0, r0)
            if out != want:
                _viol("merge_dicts:equals_reference_merge", "C18", {"left": repr(l0)[:200], "right": repr(r0)[:200]}, repr(want)[:300], repr(out)[:300])
            if left != l0 or right != r0:
                _viol("merge_dicts:arguments_unchanged", "C18", {"left": repr(l0)[:200], "right": repr(r0)[:200]}, "unchanged", "modified")
            return out

        registry.merge_dicts = merge
        installed.append("registry.merge_dicts")

    if "formatted" in which:
        fi = S.IBAN.formatted.fget
        fb = S.BIC.formatted.fget

        def iban_fmt_ok(self, result):
            _count("IBAN.formatted")
            s = str(self)
            return result == " ".join(s[i : i + 4] for i in range(0, len(s), 4))

        def bic_fmt_ok(self, result):
            _count("BIC.formatted")
            s = str(self)
            if len(s) not in (8, 11):
                return True
            return result == " ".join([s[0:4], s[4:6], s[6:8]] + ([s[8:11]] if len(s) == 11 else []))

        def wrap(fget, cond, name):
            if ic is not None:
                return property(ic.ensure(cond, error=lambda self, result: ContractBroken(f"{name} of {self!s} is {result!r}"))(fget))

            @functools.wraps(fget)
            def g2(self):
                r = fget(self)
                if not cond(self, r):
                    raise ContractBroken(f"{name} of {self!s} is {r!r}")
                return r

            return property(g2)

        S.IBAN.formatted = wrap(fi, iban_fmt_ok, "IBAN.formatted")
        S.BIC.formatted = wrap(fb, bic_fmt_ok, "BIC.formatted")
        installed += ["IBAN.formatted", "BIC.formatted"]
    return installed
