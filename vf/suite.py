"""Shard helpers: (1) the repository's own test-suite run with the contract layer on (pytest plugin),
(2) library-internal constructions (random / generate / look-ups) run with the contract layer on."""
from __future__ import annotations

import json
import os
import subprocess
import tempfile
from random import Random

from vf import env
from vf.lib import Mon

CONTRACT_PROPERTY = {
    "IBAN.__init__:no_false_accept": "C01", "IBAN.__init__:no_false_reject": "C01",
    "BIC.__init__:no_false_accept": "C04", "BIC.__init__:no_false_reject": "C04",
    "IBAN.__init__:only_library_errors": "C05", "BIC.__init__:only_library_errors": "C05",
    "IBAN.__init__:error_names_present_defect": "C05", "BIC.__init__:error_names_present_defect": "C05",
    "BBAN.validate_national_checksum": "C06", "IBAN.formatted": "C10", "BIC.formatted": "C10",
    "IBAN.__init__:compact_form_clean": "C10", "IBAN.__init__:parts_concatenate": "C11",
    "merge_dicts:equals_reference_merge": "C18", "merge_dicts:arguments_unchanged": "C18",
}


def prop_of(v):
    c = v["contract"]
    if c in CONTRACT_PROPERTY:
        return CONTRACT_PROPERTY[c]
    if c.startswith("raised_in_test:"):
        msg = str(v.get("observed", ""))
        if "validate_national_checksum" in msg:
            return "C06"
        if "formatted" in msg:
            return "C10"
    return None


def suite_under_contracts(mon: Mon, prop: str):
    fd, out = tempfile.mkstemp(prefix="vf-contract-", suffix=".json")
    os.close(fd)
    e = dict(os.environ, VF_CONTRACT_OUT=out, PYTHONPATH=env.VERIF + os.pathsep + os.environ.get("PYTHONPATH", ""), PYTHONDONTWRITEBYTECODE="1")
    tests = os.path.join(env.REPO, "tests")
    if not os.path.isdir(tests):
        # scratch package copies carry no tests: use the base repository's
        tests = os.path.join(os.environ.get("SCHWIFTY_BASE_REPO", "/repo"), "tests")
    try:
        p = subprocess.run([env.PY, "-m", "pytest", "-q", "-p", "no:cacheprovider", "-p", "vf.mon.pytest_contracts", "--timeout=600", "-x", "--deselect", "tests/test_iban.py::test_pydantic_protocol",
                            "--deselect", "tests/test_bic.py::test_pydantic_protocol", "--rootdir", env.REPO, tests],
                           cwd=env.REPO, env=e, capture_output=True, text=True, timeout=900)
        with open(out, encoding="utf-8") as fp:
            doc = json.load(fp)
    except Exception as ex:  # noqa: BLE001
        mon.notes["suite_under_contracts"] = f"not run: {ex!r}"
        return
    finally:
        try:
            os.unlink(out)
        except OSError:
            pass
    n = sum(doc["counts"].values())
    mon.ev(n)
    for k, v in doc["counts"].items():
        mon.tally("contract_evals_suite:" + k, v)
        mon.distinct(("suite-contract", k))
    mon.notes["suite_under_contracts"] = {"counts": doc["counts"], "pytest_tail": p.stdout.strip().splitlines()[-1:] if p.stdout else []}
    for v in doc["violations"]:
        if prop_of(v) == prop:
            mon.viol("contract_in_test_suite:" + v["contract"].split(":tests/")[0], v["witness"], v["expected"], v["observed"])


def workload_under_contracts(mon: Mon, S, prop: str, n: int = 300):
    from vf.mon import contracts  # noqa: PLC0415
    from vf.ref import data, lookup  # noqa: PLC0415

    contracts.install(S, which=("iban", "bic", "nat", "formatted"))
    table = data.countries()
    cs = sorted(table)
    rng = env.rng("contracts", prop)
    for k in range(n):
        cc = rng.choice(cs)
        for fn in (lambda: S.IBAN.random(cc, random=Random(f"c/{k}")), lambda: S.IBAN.random("", random=Random(f"d/{k}"), use_registry=bool(k % 2)),
                   lambda: S.IBAN.random(cc, random=Random(f"e/{k}")).formatted, lambda: S.IBAN.random(cc, random=Random(f"e/{k}")).validate(validate_bban=True)):
            try:
                fn()
            except contracts.ContractBroken as e:
                pr = "C06" if "validate_national_checksum" in str(e) else "C10"
                if pr == prop:
                    mon.viol("contract_in_workload:" + str(e).split(" ")[0], {"country": cc, "k": k}, "contract holds", str(e)[:200])
            except Exception:  # noqa: BLE001
                pass
    keys = sorted(lookup.by_key())
    for c, code in rng.sample(keys, min(len(keys), n * 2)):
        try:
            for b in S.BIC.candidates_from_bank_code(c, code):
                b.formatted  # noqa: B018
        except contracts.ContractBroken as e:
            if prop == "C10":
                mon.viol("contract_in_workload:BIC.formatted", {"country": c, "code": code}, "contract holds", str(e)[:200])
        except Exception:  # noqa: BLE001
            pass
    for k_, v_ in contracts.COUNTS.items():
        mon.tally("contract_evals_workload:" + k_, v_)
    mon.ev(sum(contracts.COUNTS.values()))
    for v in contracts.VIOLATIONS:
        if prop_of(v) == prop:
            mon.viol("contract_in_workload:" + v["contract"], v["witness"], v["expected"], v["observed"])


def run_contract_shard(prop: str, out_base):
    from vf import judge  # noqa: PLC0415

    mon = Mon(prop)
    suite_under_contracts(mon, prop)
    S = judge.lib()
    workload_under_contracts(mon, S, prop)
    mon.sample({"contracts": "repository test-suite + internal constructions of random/generate/look-ups judged by run-time contracts", "property": prop})
    return mon.result(out_base)
