"""Descriptor pools built around collision families (C14/C15).  Never imports schwifty."""
from __future__ import annotations

import random

from vf import gen
from vf.ref import data, lookup
from vf.ref import germany as G
from vf.ref import iban as R
from vf.ref import national as N


def german_classes(method: str, rng: random.Random, per_class: int = 2):
    """Accounts of one method spread over the classes that make its internal behaviour differ:
    accepted / rejected twins, remainder classes 0 / 1 / other where the reference exposes them,
    short accounts, raising paths."""
    out, seen = [], {}
    tries = 0
    while tries < 20000 and sum(len(v) for v in seen.values()) < per_class * 36:
        tries += 1
        k = rng.choice([3, 5, 6, 8, 9, 10, 10])
        a = "".join(rng.choice(R.DIGITS) for _ in range(k)).zfill(10)
        v = G.verdict(method, a)
        r = G.facts(method, a).get("r")
        cls = (v, "r0" if r == 0 else "r1" if r == 1 else "rx", "len10" if a[0] != "0" else "short",
               # drivers of method-specific branches (88: d3=9, 61: d9=8, 26/13/76: leading 00, 24/68: first digits)
               a[2] == "9", a[8] == "8", a[:2] == "00", a[0] in "3456" or a[0] == "9",
               # the exception rules of 16 / 23 look at the last two digits (with any remainder)
               a[8] == a[9])
        if len(seen.setdefault(cls, [])) < per_class:
            seen[cls].append(a)
    for cls, accs in sorted(seen.items()):
        out += accs
    return out


def build(rng: random.Random, size: str = "quick"):
    """List of descriptors; grouped families are tagged with 'grp'."""
    table = data.countries()
    cs = sorted(table)
    idx = lookup.by_key()
    keys = sorted(idx)
    n_c = 14 if size == "quick" else 60
    pool = []

    def add(d, grp=None):
        if grp:
            d["grp"] = grp
        pool.append(d)

    # same text, different flags / entry points
    for cc in rng.sample(cs, n_c) + ["DE", "NO", "BE", "FR", "IT", "PL", "SI", "IS", "CZ", "BA"]:
        spec = table[cc]
        b = gen.random_bban(spec, rng)
        if cc in N.LENGTHS and rng.random() < 0.7:
            b = N.force_valid(cc, b) or b
        t = R.make_iban(cc, b)
        bad = t[:-1] + ("0" if t[-1] != "0" else "1")
        for text in (t, bad, t.lower(), " ".join(t[i : i + 4] for i in range(0, len(t), 4))):
            add({"fn": "iban", "text": text, "kw": {}}, f"text:{cc}")
            add({"fn": "iban", "text": text, "kw": {"validate_bban": True}}, f"text:{cc}")
            add({"fn": "iban", "text": text, "kw": {"allow_invalid": True}}, f"text:{cc}")
            add({"fn": "iban_is_valid", "text": text}, f"text:{cc}")
            add({"fn": "iban_validate", "text": text, "kw": {"validate_bban": True}}, f"text:{cc}")
        add({"fn": "iban_lookup", "text": t}, f"text:{cc}")
        add({"fn": "spec", "text": t}, f"text:{cc}")
        add({"fn": "from_bban", "country": cc, "bban": b, "kw": {}}, f"text:{cc}")
        # same BBAN value under another country of equal BBAN length
        same = [c for c in cs if c != cc and table[c]["bban_length"] == spec["bban_length"]]
        for other in same[:2]:
            add({"fn": "bban", "country": other, "value": b}, f"bbanvalue:{b}")
            add({"fn": "from_bban", "country": other, "bban": b, "kw": {"allow_invalid": True}}, f"bbanvalue:{b}")
        add({"fn": "bban", "country": cc, "value": b}, f"bbanvalue:{b}")
    # same bank code in several countries; lookups
    by_code = {}
    for c, code in keys:
        by_code.setdefault(code, []).append(c)
    multi = [code for code, v in sorted(by_code.items()) if len(v) > 1]
    for code in rng.sample(multi, min(len(multi), 8 if size == "quick" else 40)):
        for c in by_code[code] + ["ZZ"]:
            add({"fn": "from_bank_code", "country": c, "code": code}, f"code:{code}")
            add({"fn": "candidates", "country": c, "code": code}, f"code:{code}")
    for c, code in rng.sample(keys, 30 if size == "quick" else 200):
        add({"fn": "from_bank_code", "country": c, "code": code})
        add({"fn": "candidates", "country": c, "code": code})
        bics = [e["bic"] for e in idx[(c, code)] if e.get("bic")]
        if bics:
            add({"fn": "bic_lookup", "text": bics[0]})
            add({"fn": "bic", "text": bics[0], "kw": {}})
            add({"fn": "bic", "text": bics[0], "kw": {"enforce_swift_compliance": True}})
            add({"fn": "bic_is_valid", "text": bics[0][:7]})
    # a BBAN value that names a listed bank in one country, read under other countries of equal length
    from vf.props.c12 import build_iban_around  # noqa: PLC0415

    for c, code in rng.sample(keys, 24 if size == "quick" else 150) + [k for k in keys if k[0] in ("DE", "PL", "SI")][:6]:
        t = build_iban_around(c, code, table, rng)
        if t is None:
            continue
        b = t[4:]
        add({"fn": "bban", "country": c, "value": b}, f"listed:{b}")
        add({"fn": "iban_lookup", "text": t}, f"listed:{b}")
        add({"fn": "iban", "text": t, "kw": {"validate_bban": True}}, f"listed:{b}")
        same = [o for o in cs if o != c and table[o]["bban_length"] == len(b)]
        for other in rng.sample(same, min(3, len(same))):
            add({"fn": "bban", "country": other, "value": b}, f"listed:{b}")
            add({"fn": "iban_lookup", "text": R.make_iban(other, b)}, f"listed:{b}")
            add({"fn": "iban", "text": R.make_iban(other, b), "kw": {"validate_bban": True}}, f"listed:{b}")
    # banks listed with several records (shared per-key lists): look-ups and validations of the same key
    def nbics(k):
        return len({e["bic"] for e in idx[k] if e.get("bic")})

    many = sorted((k for k in keys if nbics(k) >= 2), key=lambda k: (-nbics(k), k))
    # half of them: keys whose candidates are all branch-specific (no 8-character, no XXX form)
    branchy = [k for k in many if all(len(e["bic"]) == 11 and not e["bic"].endswith("XXX") for e in idx[k] if e.get("bic"))]
    nk = 6 if size == "quick" else 25
    multi_keys = rng.sample(branchy[:60], min(len(branchy[:60]), nk // 2)) + rng.sample(many[:60], min(len(many[:60]), nk - nk // 2))
    for c, code in multi_keys:
        t = build_iban_around(c, code, table, rng)
        if t is None:
            continue
        g = f"multi:{c}:{code}"
        add({"fn": "from_bank_code", "country": c, "code": code}, g)
        add({"fn": "candidates", "country": c, "code": code}, g)
        add({"fn": "iban_lookup", "text": t}, g)
        add({"fn": "bban", "country": c, "value": t[4:]}, g)
        add({"fn": "iban", "text": t, "kw": {"validate_bban": True}}, g)
    # country objects: IBAN.country / BIC.country for every code of the table that ISO 3166 does not know,
    # plus a few it does (look-ups in third-party tables must stay look-ups)
    iso = data.iso3166_alpha2()
    odd = [c for c in cs if c not in iso]
    for c in odd + rng.sample([c for c in cs if c in iso], 4) + ["ZZ"]:
        spec_c = table.get(c)
        t = R.make_iban(c, gen.random_bban(spec_c, rng)) if spec_c else c + "00123456"
        g = f"country:{c}"
        add({"fn": "bic", "text": "ABCD" + c + "22", "kw": {}}, g)
        add({"fn": "bic_country", "text": "WXYZ" + c + "2LXXX"}, g)
        add({"fn": "iban_country", "text": t}, g)
        add({"fn": "bic", "text": "QRST" + c + "33XXX", "kw": {"enforce_swift_compliance": True}}, g)
    # same seed, different countries / pins / modes
    nopos = [c for c in cs if not table[c].get("positions")]
    for s in range(3 if size == "quick" else 12):
        for cc in rng.sample(cs, 5) + ["", "PL", "NO"] + (nopos if s == 0 else rng.sample(nopos, min(2, len(nopos)))):
            for ur in (True, False):
                add({"fn": "random", "country": cc, "seed": f"s{s}", "use_registry": ur, "kw": {}}, f"seed:s{s}")
                add({"fn": "bban_random", "country": cc, "seed": f"s{s}", "use_registry": ur, "kw": {}}, f"seed:s{s}")
        add({"fn": "random", "country": "PL", "seed": f"s{s}", "use_registry": True, "kw": {"branch_code": "1234"}}, f"seed:s{s}")
        add({"fn": "random", "country": "DE", "seed": f"s{s}", "use_registry": True, "kw": {"bank_code": "37040044"}}, f"seed:s{s}")
    # draws that legitimately run out of attempts (a pinned account under which some listed banks have no check
    # digit), next to ordinary seeded draws of the same country
    from vf.ref import national as N_  # noqa: PLC0415

    if "NO" in table:
        no_codes = [k_[1] for k_ in keys if k_[0] == "NO"][:600]
        best, best_n = "123456", -1
        for _ in range(24):
            acc = "".join(rng.choice(R.DIGITS) for _ in range(6))
            n_bad = sum(1 for c_ in no_codes if N_.expected_digits("NO", (c_[:4] + acc + "0"))[0] == "none")
            if n_bad > best_n:
                best, best_n = acc, n_bad
        for k in range(10 if size == "quick" else 40):
            add({"fn": "random", "country": "NO", "seed": f"ov{k}", "use_registry": True, "kw": {"account_code": best}}, "overflow:NO")
        # ... and bank + account pinned so that no check digit exists at all: every seed runs out of attempts
        both = next(((c_[:4], a_) for c_ in no_codes for a_ in ("123456", "654321", "111111", "999999", "100000") if N_.expected_digits("NO", c_[:4] + a_ + "0")[0] == "none"), None)
        if both:
            for k in range(4):
                add({"fn": "random", "country": "NO", "seed": f"never{k}", "use_registry": True, "kw": {"bank_code": both[0], "account_code": both[1]}}, "overflow:NO")
        for k in range(4):
            add({"fn": "random", "country": "NO", "seed": f"plain{k}", "use_registry": True, "kw": {}}, "overflow:NO")
    # generation, including failing calls
    for cc in ["DE", "BE", "NO", "ES", "FR", "IT", "GB", "PL"]:
        spec = table[cc]
        pos = data.positions(spec)
        wb = pos["bank_code"][1] - pos["bank_code"][0]
        wa = pos["account_code"][1] - pos["account_code"][0]
        for i in range(3):
            bank = "".join(rng.choice(R.DIGITS) for _ in range(wb)) if cc not in ("GB",) else "NWBK"
            acct = "".join(rng.choice(R.DIGITS) for _ in range(rng.randint(1, wa)))
            add({"fn": "generate", "country": cc, "bank": bank, "account": acct}, f"gen:{cc}")
        add({"fn": "generate", "country": cc, "bank": "9" * (wb + 5), "account": "1"}, f"gen:{cc}")
        add({"fn": "generate", "country": cc, "bank": "1", "account": "9" * (wa + 3)}, f"gen:{cc}")
        add({"fn": "generate", "country": cc, "bank": "12-", "account": "1"}, f"gen:{cc}")
    add({"fn": "generate", "country": "ZZ", "bank": "1", "account": "1"}, "gen:ZZ")
    # direct algorithm calls: per German method, accounts from all behaviour classes
    for m in sorted(G.METHODS):
        accs_m = german_classes(m, rng, 1 if size == "quick" else 2)
        for a in accs_m:
            add({"fn": "algo", "key": f"DE:{m}", "components": [a]}, f"algo:DE:{m}")
        # calls that fail half-way through the computation (a non-digit after some digits were consumed)
        if accs_m:
            a0 = accs_m[0]
            for bad in (a0[:6] + "A" + a0[7:], a0[:9] + "x", "9" + a0[1:3] + "-" + a0[4:], a0[:3]):
                add({"fn": "algo", "key": f"DE:{m}", "components": [bad]}, f"algo:DE:{m}")
    for cc in N.COUNTRIES:
        spec = table.get(cc)
        if not spec:
            continue
        for i in range(2):
            b = gen.random_bban(spec, rng)
            if i == 0:
                b = N.force_valid(cc, b) or b
            add({"fn": "iban", "text": R.make_iban(cc, b), "kw": {"validate_bban": True}}, f"nat:{cc}")
        # the national check asked at BBAN level (a short path: cheap to explore under every preemption point):
        # two different valid ones and two invalid ones per country
        for i in range(4):
            b = gen.random_bban(spec, rng)
            if i < 2:
                b = N.force_valid(cc, b) or b
            else:
                for _ in range(50):  # the last two are ones the reference rejects
                    if N.verdict(cc, b, spec["bban_length"]) == R.REJECT:
                        break
                    b = gen.random_bban(spec, rng)
            add({"fn": "bban_check", "country": cc, "value": b}, f"natb:{cc}")
    # the same digit string as body of every national-algorithm country (equal component concatenations)
    for k in range(2 if size == "quick" else 8):
        D = "".join(rng.choice(R.DIGITS) for _ in range(40))
        for cc in N.COUNTRIES:
            spec = table.get(cc)
            if not spec or N.LENGTHS.get(cc) != spec["bban_length"]:
                continue
            fb = N.force_valid(cc, N.body_fill(cc, D, spec["bban_length"]))
            if fb and R.matches_spec(spec["bban_spec"], fb):
                add({"fn": "iban", "text": R.make_iban(cc, fb), "kw": {"validate_bban": True}}, f"natD:{k}")
                pos = data.positions(spec)
                if cc in N.COMPUTING and "account_code" in pos:
                    add({"fn": "generate", "country": cc, "bank": fb[pos["bank_code"][0] : pos["bank_code"][1]] if "bank_code" in pos else "",
                         "account": fb[pos["account_code"][0] : pos["account_code"][1]], "branch": fb[pos["branch_code"][0] : pos["branch_code"][1]] if "branch_code" in pos else ""}, f"natD:{k}")
    # German public-API calls for two banks of the same method
    first = {k[1]: v[0] for k, v in idx.items() if k[0] == "DE"}
    by_m = {}
    for code, e in sorted(first.items()):
        by_m.setdefault(e.get("checksum_algo"), []).append(code)
    for m, codes in sorted(by_m.items()):
        if m not in G.METHODS or len(codes) < 2:
            continue
        accs = german_classes(m, rng, 1)[:4]
        for code in rng.sample(codes, 2):
            for a in accs:
                add({"fn": "iban", "text": R.make_iban("DE", code + a), "kw": {"validate_bban": True}}, f"api:DE:{m}")
            if accs:
                # an unvalidated BBAN of the same bank whose account breaks off the computation half-way
                add({"fn": "bban", "country": "DE", "value": code + accs[0][:5] + "A" + accs[0][6:]}, f"api:DE:{m}")
    # the first and the last records of the effective bank list (whatever is built from that list in file order
    # reaches them first / last)
    bank_list = data.banks()
    edge = []
    for e_ in bank_list[:40]:
        if e_.get("bank_code") and e_.get("bic") and len(edge) < 2:
            edge.append(("first", e_))
    for e_ in reversed(bank_list[-40:]):
        if e_.get("bank_code") and e_.get("bic") and len(edge) < 4:
            edge.append(("last", e_))
    for where_, e_ in edge:
        add({"fn": "from_bank_code", "country": e_["country_code"], "code": e_["bank_code"]}, f"edge:{where_}")
        add({"fn": "candidates", "country": e_["country_code"], "code": e_["bank_code"]}, f"edge:{where_}")
        add({"fn": "bic_lookup", "text": e_["bic"]}, f"edge:{where_}")
    # one object shared by several callers: validated under different flags / read at the same time
    de_listed = [k for k in keys if k[0] == "DE" and idx[k][0].get("checksum_algo") in G.METHODS][:1]
    shared = [("bic", "1234DEWW", [{}, {"enforce_swift_compliance": True}]), ("bic", "DEUTDEFF500", [{}, {"enforce_swift_compliance": True}]), ("bic", "DEUTDEF", [{}, {"enforce_swift_compliance": True}])]
    for k_ in de_listed:
        m_ = idx[k_][0]["checksum_algo"]
        accs_ = german_classes(m_, rng, 1)
        for a_ in accs_[:2]:
            shared.append(("iban", R.make_iban("DE", k_[1] + a_), [{}, {"validate_bban": True}]))
    shared.append(("iban", R.make_iban("BE", "539007547035"), [{}, {"validate_bban": True}]))
    for cls_, text_, kws_ in shared:
        for kw_ in kws_:
            add({"fn": "shared_validate", "cls": cls_, "text": text_, "kw": kw_}, f"shared:{cls_}:{text_}")
        add({"fn": "shared_read", "cls": cls_, "text": text_, "attrs": ["is_valid", "formatted", "country_code"] + (["bic", "bank_name"] if cls_ == "iban" else ["exists", "domestic_bank_codes"])}, f"shared:{cls_}:{text_}")
    # objects created earlier in a history handed back to the constructors (under another country code, to the
    # same class, as BBAN argument of from_bban): spread over the pool so that every history meets them
    n0 = len(pool)
    for k, other in enumerate(["MC", "KM", "AT", "GB", "SM", "XX"]):
        pool.insert((k + 1) * n0 // 7, {"fn": "reuse_kept", "other": other})
    # user subclasses with a narrowed constructor going through the alternative constructors (whatever the library
    # concludes about a class must not depend on what it concluded about another class before)
    for k, (which, how) in enumerate([("a", "generate"), ("b", "from_bban"), ("c", "random"), ("d", "construct"), ("a", "from_bban"), ("e", "generate")]):
        pool.insert((k * n0) // 6 + 3, {"fn": "narrow_subclass", "which": which, "how": how, "grp": "narrow"})
    # public-looking registry calls that fail: they must leave everything as it was
    for k, d in enumerate([{"fn": "registry_fail", "how": "get_unknown"}, {"fn": "registry_fail", "how": "build_index_missing_key"}, {"fn": "registry_fail", "how": "manipulate_raises"}]):
        pool.insert((2 * k + 1) * n0 // 7, d)
    return pool
