"""Paths, seeds, tree-under-test selection.  Never imports schwifty at module level."""
from __future__ import annotations

import hashlib
import os
import random
import subprocess
import sys

VERIF = os.path.dirname(os.path.dirname(os.path.abspath(__file__)))
REPO = os.path.abspath(os.environ.get("SCHWIFTY_REPO", "/repo"))
PKG = os.path.join(REPO, "schwifty")
PY = os.environ.get("VERIF_PYTHON", "/venv/bin/python")
GUARD = "SCHWIFTY_VERIF"


def seed() -> int:
    try:
        return int(os.environ.get("VERIF_SEED", "0"))
    except ValueError:
        return 0


def rng(*parts) -> random.Random:
    return random.Random("/".join(str(p) for p in (seed(),) + parts))


def jobs() -> int:
    try:
        return max(1, int(os.environ.get("VERIF_JOBS", "0")) or min(16, os.cpu_count() or 4))
    except ValueError:
        return 8


def use_repo(path: str | None = None):
    """Make `import schwifty` resolve to the tree under test and prove it did."""
    root = os.path.abspath(path or REPO)
    if root in sys.path:
        sys.path.remove(root)
    sys.path.insert(0, root)
    import schwifty  # noqa: PLC0415

    got = os.path.realpath(os.path.dirname(schwifty.__file__))
    want = os.path.realpath(os.path.join(root, "schwifty"))
    if got != want:
        raise RuntimeError(f"schwifty imported from {got}, expected {want}")
    return schwifty


def tree_id() -> dict:
    """git HEAD and a digest of the working-tree diff of the tree under test."""
    out = {"repo": REPO}
    try:
        head = subprocess.run(
            ["git", "-C", REPO, "rev-parse", "HEAD"], capture_output=True, text=True, timeout=20
        ).stdout.strip()
        diff = subprocess.run(
            ["git", "-C", REPO, "diff", "HEAD", "--", "schwifty"],
            capture_output=True,
            timeout=60,
        ).stdout
        out["head"] = head
        out["diff_sha1"] = hashlib.sha1(diff).hexdigest() if diff else ""
    except Exception as e:  # noqa: BLE001
        out["error"] = repr(e)
    return out
