"""Workload families (seeded, JSON-serialisable cases).  Never imports schwifty."""
from __future__ import annotations

import random

from vf.ref import data
from vf.ref import iban as R

WS_VERDICT = [" ", "\t", "\n", "\r", "\f", "\v", "\u00a0", "\u202f", "\u2007", "\u2009", "\u3000", "\u2003", "\u2028", "\u0085", "\u1680", "\u205f"]
WS_OTHER = ["\x1c", "\x1d", "\x1e", "\x1f"]


def wide_alphabet() -> list[str]:
    a = [chr(i) for i in range(0x80)]
    a += [chr(i) for i in range(0x0660, 0x066A)]  # Arabic-Indic digits
    a += [chr(i) for i in range(0x06F0, 0x06FA)]  # Extended Arabic-Indic
    a += [chr(i) for i in range(0x0966, 0x0970)]  # Devanagari
    a += [chr(i) for i in range(0xFF10, 0xFF1A)]  # full-width digits
    a += [chr(i) for i in range(0xFF21, 0xFF3B)]  # full-width upper
    a += [chr(i) for i in range(0xFF41, 0xFF5B)]  # full-width lower
    a += [chr(i) for i in range(0x1D7CE, 0x1D7D8)]  # mathematical bold digits (astral)
    a += [chr(i) for i in range(0x1D400, 0x1D40A)]  # mathematical bold letters
    a += list("²³¹⁰⁴₀₁½¼¾①②⑩Ⅷⅷ")
    a += list("АВЕКМНОРСТХаеорсх")  # Cyrillic confusables
    a += list("ΑΒΕΖΗΙΚΜΝΟΡΤΥΧαο")  # Greek confusables
    a += list("ßıſǰŉﬁﬀKÅĸÉéÄäÖöÜüÇçÑñŁłØøİ")
    a += ["\u0301", "\u0308", "\u20e3", "\u200b", "\u200d", "\ufeff", "\xad", "\u202e"]
    a += WS_OTHER + ["\u00a0"]
    a += ["\ud800", "\udfff", "\U0001F600", "\uffff", "\u0100"]
    a += compat_chars(110)
    seen, out = set(), []
    for c in a:
        if c not in seen:
            seen.add(c)
            out.append(c)
    return out


def compat_chars(limit: int = 160) -> list[str]:
    """Characters whose NFKC / case mappings produce ASCII or spaces (compatibility forms, spacing accents,
    ligatures, enclosed alphanumerics ...): a deterministic sample plus every one that yields a space."""
    import unicodedata  # noqa: PLC0415

    must, rest = [], []
    for cp in range(0xA0, 0x3100):
        c = chr(cp)
        n = unicodedata.normalize("NFKC", c)
        if n == c:
            continue
        if " " in n:
            must.append(c)
        elif any(ord(x) < 128 for x in n):
            rest.append(c)
    step = max(1, len(rest) // max(1, limit - len(must)))
    return must + rest[::step]


TOKENS = ["IBAN", "BBAN", "SWIFT", "BIC", "NONE", "NULL", "TRUE", "TEST", "XXX", "NAN", "INF", "E10", "0X1F", "0E0"]


def token_bbans(spec: dict, rng: random.Random, fields=None) -> list[str]:
    """Structure-conforming BBANs that start or end with a vocabulary token, one per token and place that
    the position classes allow; with `fields` (component -> (start, end)) also at the start and end of every
    field."""
    cls = R.position_classes(spec["bban_spec"])
    out = []
    if not cls:
        return out
    for t in TOKENS + [spec.get("country", "") * 2]:
        starts = [0, len(cls) - len(t)]
        for s_, e_ in (fields or {}).values():
            if e_ - s_ >= len(t):
                starts += [s_, e_ - len(t)]
        for start in dict.fromkeys(starts):
            if t and 0 <= start and start + len(t) <= len(cls) and all(ch in cls[start + i] for i, ch in enumerate(t)):
                b = list(random_bban(spec, rng))
                b[start : start + len(t)] = list(t)
                out.append("".join(b))
    return out


# words of the payment world that happen to have the shape of a BIC (4 characters, an ISO country code, 2 (+3) more)
BIC_WORDS = ["NOTPROVIDED", "NOTAVAIL", "UNKNOWNBICX", "TESTDEFF", "TESTDEFFXXX", "NULLDEFF", "NONEGB2L", "XXXXDEXX", "XXXXDEXXXXX", "AAAAAAAA", "ZZZZZZZZZZZ", "BANKDEFF", "BICXUS33", "SWIFTDE1", "TODOFRPP", "DUMMYGB2L"[:8], "NOTGIVENXXX"[:11]]


LABELS = ["IBAN", "IBAN ", "IBAN: ", "iban ", "IBAN:", "IBAN\t", "BIC ", "BIC: ", "SWIFT ", "BBAN ", "IBAN NO. ", "Iban "]


def labelled(text: str) -> list[str]:
    """The value as it is often printed: with a label in front (or behind).  None of these is the value."""
    out = [lab + text for lab in LABELS]
    out += [text + " IBAN", text + "IBAN", "(" + text + ")", text + ".", "IBAN" + text.replace(" ", ""), " IB AN " + text]
    return out


def char_of(cls: str, rng: random.Random) -> str:
    return rng.choice(cls)


def random_bban(spec: dict, rng: random.Random, style: str = "uniform") -> str:
    """A BBAN conforming to the country's structure (upper-case)."""
    toks = R.parse_spec(spec["bban_spec"])
    out = []
    for lo, hi, k in toks:
        n = hi if lo == hi else rng.randint(lo, hi)
        cls = R.CLASS[k]
        if style == "uniform":
            out.append("".join(rng.choice(cls) for _ in range(n)))
        elif style == "low":
            out.append(cls[0] * n)
        elif style == "high":
            out.append(cls[-1] * n)
        elif style == "letters" and k == "c":
            out.append("".join(rng.choice(R.UPPER) for _ in range(n)))
        elif style == "digits" and k == "c":
            out.append("".join(rng.choice(R.DIGITS) for _ in range(n)))
        elif style == "alt":
            out.append("".join(cls[(i * 7) % len(cls)] for i in range(n)))
        else:
            out.append("".join(rng.choice(cls) for _ in range(n)))
    return "".join(out)


STYLES = ["uniform", "low", "high", "letters", "digits", "alt"]


def valid_ibans(country: str, spec: dict, rng: random.Random, k: int) -> list[str]:
    out = []
    for i in range(k):
        style = STYLES[i] if i < len(STYLES) and i > 0 else "uniform"
        out.append(R.make_iban(country, random_bban(spec, rng, style)))
    if k >= 6:
        # vocabulary tokens inside the BBAN (dictionary fuzzing): IBAN..., ...XXX, country code doubled
        for tb in token_bbans(spec, rng):
            out.append(R.make_iban(country, tb))
    return out


def refix(country_and_rest: str) -> str:
    """Recompute the check digits of an IBAN-shaped text when everything else is ASCII alnum."""
    s = country_and_rest
    if len(s) > 4 and R.is_ascii_alnum_upper(s[:2] + s[4:]):
        return s[:2] + R.check_digits(s[:2], s[4:]) + s[4:]
    return s


def decorate(text: str, rng: random.Random, ws=None) -> list[str]:
    """Whitespace / case variants of a text (verdict set by default)."""
    ws = ws or WS_VERDICT
    out = []
    w = rng.choice(ws)
    out.append(w + text)
    out.append(text + w)
    out.append(w + w + text + w)
    if len(text) > 1:
        p = rng.randrange(1, len(text))
        out.append(text[:p] + w + text[p:])
        out.append(text[:p] + w + rng.choice(ws) + text[p:])
        out.append(rng.choice(ws).join(text))
        out.append(" ".join(text[i : i + 4] for i in range(0, len(text), 4)))
        out.append("\t".join(text[i : i + 3] for i in range(0, len(text), 3)) + "\n")
    out.append(text.lower())
    out.append("".join(c.lower() if rng.random() < 0.5 else c for c in text))
    out.append(rng.choice(ws).join(text.lower()))
    out.append("".join(c + (rng.choice(ws) if rng.random() < 0.3 else "") for c in text.swapcase()))
    # heavy padding: fixed-width records, pasted blocks (the amount of whitespace never matters)
    n = rng.choice([40, 64, 65, 100, 128, 129, 300, 5000])
    out.append(text.ljust(n))
    out.append(text.rjust(n))
    out.append((w * (n // max(1, len(text)) + 1)).join(text))
    out.append("\n" * n + text + "\t" * n)
    return out


JUNK = list("-._/:;,!?*#@+=()[]{}<>|\\'\"`~^%$&") + ["\x00", "\x7f", "é", "ß", "٣", "３", "Ａ", "а", "ı", "​"]


def edit_fuzz(base: str, rng: random.Random, max_edits: int = 3) -> str:
    s = list(base)
    pool = list(R.ALNUM) + list("abcxyz") + JUNK + WS_VERDICT
    for _ in range(rng.randint(1, max_edits)):
        op = rng.randrange(6)
        if op == 0 and s:
            del s[rng.randrange(len(s))]
        elif op == 1:
            s.insert(rng.randint(0, len(s)), rng.choice(pool))
        elif op == 2 and s:
            s[rng.randrange(len(s))] = rng.choice(pool)
        elif op == 3 and len(s) > 1:
            i = rng.randrange(len(s) - 1)
            s[i], s[i + 1] = s[i + 1], s[i]
        elif op == 4 and s:
            s = s[: rng.randrange(len(s))]
        else:
            s.append(rng.choice(pool))
    return "".join(s)


def chunk(seq, n):
    seq = list(seq)
    k = max(1, (len(seq) + n - 1) // n)
    return [seq[i : i + k] for i in range(0, len(seq), k)]


def country_table():
    return data.countries()
