"""C09 — computed national check digits validate; parsing and rebuilding round-trips."""
from __future__ import annotations

from random import Random

from vf import env, gen, judge
from vf.lib import Mon, observe
from vf.ref import data
from vf.ref import iban as R
from vf.ref import national as N

META = {
    "level": "exploration",
    "rule": (
        "(a) the 19 computing countries: IBAN.generate(components) and IBAN.random(seeded) results must pass "
        "validate(validate_bban=True), bban.validate_national_checksum() and the independent R-NAT; (b) every country "
        "with published positions: nationally valid IBANs (reference-forced valid and library-drawn) are decomposed "
        "into all published components and BBAN.from_components(country, **components) must reproduce the BBAN at "
        "every position covered by a component (filler positions, computed from the tree, are ignored); distinct = "
        "distinct IBANs validated resp. rebuilt"
    ),
    "assumptions": ["nationally valid = accepted by the library with validate_bban=True (inputs supplied independently by R-NAT forcing)"],
    "min_distinct": {"quick": 12000, "thorough": 500000},
}
SIZES = {"quick": dict(gen=300, rebuild=100), "thorough": dict(gen=15000, rebuild=4000)}


def plan(tier, seed):
    table = data.countries()
    comp = [c for c in N.COMPUTING if c in table]
    sh = [{"kind": "compute", "countries": c, "tier": tier, "_name": f"compute-{i}"} for i, c in enumerate(gen.chunk(comp, 10 if tier == "quick" else 19))]
    sh.append({"kind": "mixed", "countries": comp, "tier": tier, "_name": "compute-mixed"})
    withpos = [c for c in sorted(table) if data.positions(table[c])]
    sh += [{"kind": "rebuild", "countries": c, "tier": tier, "_name": f"rebuild-{i}"} for i, c in enumerate(gen.chunk(withpos, 8 if tier == "quick" else 30))]
    return sh


def run_compute(shard, mon, S, table):
    n = SIZES[shard["tier"]]["gen"]
    for cc in shard["countries"]:
        spec = table[cc]
        pos = data.positions(spec)
        rng = env.rng("C09", cc)
        cls = R.position_classes(spec["bban_spec"])

        def val(comp, short=False):
            if comp not in pos:
                return ""
            s, e = pos[comp]
            v = "".join(rng.choice(c) for c in cls[s:e])
            return v.lstrip("0")[: rng.randint(1, e - s)] if short and v.strip("0") and v.lstrip("0")[0] in R.DIGITS and all(ch in R.DIGITS for ch in v) else v

        produced = 0
        for i in range(n):
            short = i % 3 == 0
            bank, acct, branch = val("bank_code", short), val("account_code", short), val("branch_code", False)
            o = observe(S.IBAN.generate, cc, bank_code=bank, account_code=acct, branch_code=branch)
            mon.ev()
            w = {"country": cc, "bank_code": bank, "account_code": acct, "branch_code": branch, "via": "generate"}
            if not o.ok:
                if not judge.is_lib_exc(o.exc):
                    mon.viol(f"escape:generate:{o.exc_name}", w, "library error", o.brief())
                else:
                    mon.tally("generate_refused_" + o.exc_name)
                continue
            produced += 1
            check_valid(mon, S, o.value, cc, table, w)
        # bank codes of every width up to bank + branch + check field (+2), with and without a separate branch code:
        # the joined forms some registries use for their keys included - a nationally valid IBAN or a library error
        from vf.ref import lookup  # noqa: PLC0415

        bw = (pos["bank_code"][1] - pos["bank_code"][0]) if "bank_code" in pos else 0
        brw = (pos["branch_code"][1] - pos["branch_code"][0]) if "branch_code" in pos else 0
        ckw = (pos["national_checksum_digits"][1] - pos["national_checksum_digits"][0]) if "national_checksum_digits" in pos else 0
        wide = ["".join(rng.choice(R.DIGITS) for _ in range(wd)) for wd in range(1, bw + brw + ckw + 3) for _ in range(2)]
        lk = [k_ for c_, k_ in sorted(lookup.by_key()) if c_ == cc]
        for k_ in rng.sample(lk, min(6, len(lk))):
            wide += [k_, k_[:-1] + str((int(k_[-1]) + 1) % 10) if k_[-1:].isdigit() else k_]
        for bank in wide:
            for branch in ("", val("branch_code")):
                o = observe(S.IBAN.generate, cc, bank_code=bank, account_code=val("account_code"), branch_code=branch)
                mon.ev()
                mon.tally("bank_code_width_sweep")
                w = {"country": cc, "bank_code": bank, "branch_code": branch, "via": "generate (bank code width sweep)"}
                if o.ok:
                    produced += 1
                    check_valid(mon, S, o.value, cc, table, w)
                elif not judge.is_lib_exc(o.exc):
                    mon.viol(f"escape:generate:{o.exc_name}", w, "library error", o.brief())
        # components for fields the country does not have (a branch code where there is no branch field, ...), and
        # from_components with every subset of the keywords left out: a library error, or a nationally valid result
        allk = ("bank_code", "branch_code", "account_code", "account_type", "account_id", "currency_code")
        for k in range(12 if shard["tier"] == "quick" else 200):
            kwargs = {"bank_code": val("bank_code"), "account_code": val("account_code")}
            for extra in allk:
                if extra not in pos and rng.random() < 0.5:
                    kwargs[extra] = rng.choice(["79", "1", "0418", "X"])
                elif extra in pos and extra not in kwargs and rng.random() < 0.5:
                    kwargs[extra] = val(extra)
            if k % 3 == 0:
                kwargs.pop(rng.choice(sorted(kwargs)))
            gen_kw = {c_: v_ for c_, v_ in kwargs.items() if c_ in ("bank_code", "branch_code", "account_code")}
            for name, fn in (("from_components", lambda: S.IBAN.from_bban(cc, S.BBAN.from_components(cc, **kwargs))),
                             ("generate", (lambda: S.IBAN.generate(cc, **gen_kw)) if {"bank_code", "account_code"} <= set(gen_kw) else None)):
                if fn is None:
                    continue
                o = observe(fn)
                mon.ev()
                mon.tally("surplus_or_omitted_components")
                w = {"country": cc, "via": name, "components": kwargs if name == "from_components" else gen_kw}
                if o.ok:
                    produced += 1
                    check_valid(mon, S, o.value, cc, table, w)
                elif not judge.is_lib_exc(o.exc) and not isinstance(o.exc, TypeError):
                    mon.viol(f"escape:{name}:{o.exc_name}", w, "library error", o.brief())
        for k in range(n // 3):
            # draws with pinned bank and account: a valid (also nationally) IBAN carrying the pins, or the overflow error
            pb, pa = val("bank_code"), val("account_code")
            pins = {c_: v_ for c_, v_ in (("bank_code", pb), ("account_code", pa)) if v_}
            o = observe(S.IBAN.random, cc, random=Random(f"{env.seed()}/C09p/{cc}/{k}"), **pins)
            mon.ev()
            wp = {"country": cc, "pins": pins, "via": "random-pinned"}
            if o.ok:
                if any(getattr(o.value, c_) != v_ for c_, v_ in pins.items()):
                    mon.viol(f"pinned_draw_ignores_pins:{cc}", {**wp, "iban": str(o.value)}, pins, {c_: getattr(o.value, c_) for c_ in pins})
                check_valid(mon, S, o.value, cc, table, wp)
            elif not o.is_a("GenerateRandomOverflowError"):
                mon.viol(f"pinned_draw_raised:{o.exc_name}", wp, "IBAN or GenerateRandomOverflowError", o.brief())
        for k in range(n // 2):
            if k % 4 == 0:
                # a failing generation (character that cannot be part of the field, at a varying offset) in between
                bad_a = val("account_code")
                off = rng.randrange(max(1, len(bad_a)))
                observe(S.IBAN.generate, cc, bank_code=val("bank_code"), account_code=bad_a[:off] + rng.choice("-_. ~") + bad_a[off + 1 :], branch_code=val("branch_code"))
                observe(S.IBAN.generate, cc, bank_code=val("bank_code")[:-1] + "-", account_code=val("account_code"), branch_code=val("branch_code"))
            for ur in (True, False):
                o = observe(S.IBAN.random, cc, random=Random(f"{env.seed()}/C09/{cc}/{k}"), use_registry=ur)
                mon.ev()
                w = {"country": cc, "seed": f"{env.seed()}/C09/{cc}/{k}", "use_registry": ur, "via": "random"}
                if not o.ok:
                    if not judge.is_lib_exc(o.exc):
                        mon.viol(f"escape:random:{o.exc_name}", w, "library error", o.brief())
                    continue
                produced += 1
                check_valid(mon, S, o.value, cc, table, w)
        for carg in (cc.lower(), cc + " ", " " + cc, cc[0] + cc[1].lower()):
            bank, acct, branch = val("bank_code"), val("account_code"), val("branch_code")
            for name, fn in (("generate", lambda: S.IBAN.generate(carg, bank_code=bank, account_code=acct, branch_code=branch)),
                             ("random", lambda: S.IBAN.random(carg, random=Random(f"cc/{cc}"))),
                             ("from_components", lambda: S.IBAN.from_bban(carg, S.BBAN.from_components(carg, bank_code=bank, account_code=acct, branch_code=branch)))):
                o = observe(fn)
                mon.ev()
                mon.tally("non_canonical_country_code_calls")
                if o.ok:
                    check_valid(mon, S, o.value, cc, table, {"country_arg": carg, "via": name, "bank_code": bank, "account_code": acct, "branch_code": branch})
                elif not judge.is_lib_exc(o.exc):
                    mon.viol(f"escape:{name}:{o.exc_name}", {"country_arg": carg}, "library error", o.brief())
        mon.tally("produced_" + cc, produced)
        mon.sample({"country": cc, "generated": str(o.value) if o.ok else None})


def run_mixed(shard, mon, S, table):
    """Computing countries interleaved in one process with coinciding component strings: validate an IBAN of
    one country, then generate + validate one of another."""
    rng = env.rng("C09", "mixed")
    n = 40 if shard["tier"] == "quick" else 1200
    for k in range(n):
        D = "".join(rng.choice(R.DIGITS) for _ in range(40))
        order = list(shard["countries"])
        rng.shuffle(order)
        for cc in order:
            spec = table[cc]
            pos = data.positions(spec)
            if N.LENGTHS.get(cc) != spec["bban_length"] or "account_code" not in pos:
                continue
            b = N.body_fill(cc, D, spec["bban_length"])
            if not R.matches_spec(spec["bban_spec"], N.force_valid(cc, b) or ""):
                continue
            comp = {c: b[pos[c][0] : pos[c][1]] for c in ("bank_code", "branch_code", "account_code") if c in pos}
            o = observe(S.IBAN.generate, cc, bank_code=comp.get("bank_code", ""), account_code=comp["account_code"], branch_code=comp.get("branch_code", ""))
            mon.ev()
            w = {"country": cc, "components": comp, "via": "generate-mixed", "round": k}
            if not o.ok:
                if not judge.is_lib_exc(o.exc):
                    mon.viol(f"escape:generate:{o.exc_name}", w, "library error", o.brief())
                elif N.force_valid(cc, b) is not None:
                    mon.viol(f"generate_refused_after_other_countries:{o.exc_name}", w, "valid IBAN", o.brief())
                continue
            check_valid(mon, S, o.value, cc, table, w)
    mon.tally("mixed_rounds", n)


def check_valid(mon, S, ib, cc, table, w):
    s = str(ib)
    w = {**w, "iban": s}
    mon.distinct(("valid", s))
    o = observe(ib.validate, validate_bban=True)
    if not o.ok:
        mon.viol(f"computed_digits_fail_own_validation:{cc}", w, "validate(validate_bban=True) passes", o.brief())
    o2 = observe(ib.bban.validate_national_checksum)
    if not o2.ok or o2.value is not True:
        mon.viol(f"computed_digits_fail_bban_check:{cc}", w, True, o2.brief())
    o3 = observe(S.IBAN, s, validate_bban=True)
    if not o3.ok:
        mon.viol(f"computed_digits_fail_reparse:{cc}", w, "accepted", o3.brief())
    ref = N.verdict(cc, s[4:], table[cc]["bban_length"])
    mon.tally("ref_" + ref)
    if ref == R.REJECT:
        mon.viol(f"computed_digits_disagree_with_published_algorithm:{cc}", w, "R-NAT ACCEPT", ref)


def run_rebuild(shard, mon, S, table):
    n = SIZES[shard["tier"]]["rebuild"]
    for cc in shard["countries"]:
        spec = table[cc]
        pos = data.positions(spec)
        L = spec["bban_length"]
        covered = [False] * L
        for s, e in pos.values():
            for i in range(s, min(e, L)):
                covered[i] = True
        filler = [i for i, c in enumerate(covered) if not c]
        if filler:
            mon.notes.setdefault("filler_positions", {})[cc] = filler
        rng = env.rng("C09r", cc)
        cands = []
        for i in range(n):
            b = gen.random_bban(spec, rng, gen.STYLES[i % 6] if i % 4 == 0 else "uniform")
            if cc in N.LENGTHS:
                b = N.force_valid(cc, b) or b
            cands.append(R.make_iban(cc, b))
            if cc in N.CHECK_FIELD and i % 3 == 0:
                # the same body with other check-field contents: whatever the library accepts nationally
                # must rebuild too (a correct library accepts only the canonical digits)
                s_, e_ = N.CHECK_FIELD[cc]
                kcls = R.position_classes(spec["bban_spec"])[s_]
                cur = b[s_:e_]
                alts = [c for c in kcls] if e_ - s_ == 1 else ["00", "01", "97", "98", "99", f"{(int(cur) + 97) % 100:02d}" if cur.isdigit() else "00"]
                for a in alts:
                    if a != cur:
                        cands.append(R.make_iban(cc, b[:s_] + a + b[e_:]))
        # fields that begin or end with a vocabulary word (an account number may be any text its class allows)
        for tb in gen.token_bbans(spec, rng, fields=pos):
            if cc in N.LENGTHS:
                tb = N.force_valid(cc, tb) or tb
            if R.matches_spec(spec["bban_spec"], tb):
                cands.append(R.make_iban(cc, tb))
                mon.tally("rebuild_candidates_with_vocabulary_words")
        for k in range(max(4, n // 4)):
            o = observe(S.IBAN.random, cc, random=Random(f"{env.seed()}/C09r/{cc}/{k}"))
            if o.ok:
                cands.append(str(o.value))
        # listed banks of the country (their records may name their own algorithm)
        if cc in N.CHECK_FIELD:
            from vf.props.c12 import build_iban_around  # noqa: PLC0415
            from vf.ref import lookup  # noqa: PLC0415

            byk = lookup.by_key()
            keys = [k for k in sorted(byk) if k[0] == cc]
            if len(keys) > (60 if shard["tier"] == "quick" else 10**9):
                # records that say something about check digits are always taken, the rest is sampled
                special = [k for k in keys if any("checksum" in str(f_) or "algo" in str(f_) for e_ in byk[k] for f_ in e_)]
                keys = special[:200] + rng.sample(keys, 60)
            for _, code in keys:
                t = build_iban_around(cc, code, table, rng)
                fb = N.force_valid(cc, t[4:]) if t else None
                if fb and R.matches_spec(spec["bban_spec"], fb):
                    s_, e_ = N.CHECK_FIELD[cc]
                    kcls = R.position_classes(spec["bban_spec"])[s_]
                    alt = fb[:s_] + "".join(kcls[(kcls.index(c) + 1) % len(kcls)] for c in fb[s_:e_]) + fb[e_:]
                    cands += [R.make_iban(cc, fb), R.make_iban(cc, alt)]
        done = 0
        for text in cands:
            o = observe(S.IBAN, text, validate_bban=True)
            if not o.ok:
                # second route to "nationally valid": an object built with default flags, validated afterwards
                o_b = observe(S.IBAN, text)
                if o_b.ok and observe(o_b.value.validate, validate_bban=True).ok:
                    o = o_b
                    mon.tally("nationally_valid_only_via_later_validate")
                else:
                    mon.tally("not_nationally_valid_skipped")
                    continue
            ib = o.value
            comps = {c: getattr(ib, c) for c in data.COMPONENTS if c in pos}
            o2 = observe(S.BBAN.from_components, cc, **comps)
            mon.ev()
            mon.distinct(("rebuild", text))
            w = {"iban": text, "components": comps}
            if not o2.ok:
                mon.viol(f"rebuild_raised:{o2.exc_name}", w, text[4:], o2.brief())
                continue
            got, want = str(o2.value), text[4:]
            diff = [i for i in range(max(len(got), len(want))) if (got[i : i + 1] != want[i : i + 1]) and (i >= L or covered[i])]
            if len(got) != len(want) or diff:
                comp_at = sorted({c for c, (s, e) in pos.items() for i in diff if s <= i < e})
                mon.viol("rebuild_differs:" + "+".join(comp_at or ["length"]), {**w, "positions": diff}, want, got)
            done += 1
        mon.tally("rebuilt", done)
        mon.tally("countries_rebuilt", 1 if done else 0)
        mon.sample({"iban": cands[0], "components": {c: cands[0][4:][pos[c][0] : pos[c][1]] for c in pos}})


def run_shard(shard, out_base):
    mon = Mon("C09")
    S = judge.lib()
    table = data.countries()
    {"compute": run_compute, "mixed": run_mixed, "rebuild": run_rebuild}[shard["kind"]](shard, mon, S, table)
    return mon.result(out_base)


def finish(m, tier, seed):
    table = data.countries()
    t = m["tallies"]
    missing = [c for c in N.COMPUTING if c in table and t.get("produced_" + c, 0) < 20]
    if missing:
        m["inconclusive"].append(f"too few generated IBANs for {missing}")
    n = len([c for c in table if data.positions(table[c])])
    if t.get("countries_rebuilt", 0) < n:
        m["inconclusive"].append(f"rebuild reached {t.get('countries_rebuilt', 0)} of {n} countries")
    return {}
