"""C10 — whitespace and letter case never matter; formatting round-trips."""
from __future__ import annotations

from vf import env, gen, judge
from vf.lib import Mon, esc, observe, soft_attr
from vf.props.c04 import rand_bic
from vf.ref import data
from vf.ref import iban as R
from vf.ref import national as N

META = {
    "level": "exploration",
    "rule": (
        "base texts (valid and invalid IBANs of every country, valid and invalid BICs, both BIC modes) x decorated "
        "variants (space, tab, LF, CR, FF, VT, NBSP inserted leading / trailing / doubled / between every pair / "
        "grouped; lower, mixed and swapped case): variant and base must be accepted or rejected alike and give equal "
        "objects with identical str, free of whitespace and ASCII lower case; accepted objects: formatted equals the "
        "grouping computed by the harness and re-parsing str / formatted gives an equal object; "
        "distinct = distinct (base, variant) pairs compared"
    ),
    "assumptions": ["scope: the parsing constructors and .formatted (as anchored); look-ups and from_bban with raw strings are not judged", "verdict whitespace set {space,\\t,\\n,\\r,\\f,\\v,NBSP}; other Unicode spaces observed only"],
    "min_distinct": {"quick": 40000, "thorough": 1500000},
}
SIZES = {"quick": dict(per_country=20, bics=2000), "thorough": dict(per_country=1000, bics=100000)}


def plan(tier, seed):
    cs = sorted(data.countries())
    sh = [{"kind": "iban", "countries": c, "tier": tier, "_name": f"iban-{i}"} for i, c in enumerate(gen.chunk(cs, 14 if tier == "quick" else 42))]
    for i in range(2 if tier == "quick" else 8):
        sh.append({"kind": "bic", "part": i, "parts": 2 if tier == "quick" else 8, "tier": tier, "_name": f"bic-{i}"})
    sh.append({"kind": "contracts", "tier": tier, "_name": "contracts"})
    sh.append({"kind": "iban", "countries": ["DE", "GB", "FR", "NO", "IT", "MT"], "saturate": True, "tier": tier, "_prelude": False, "_name": "iban-after-many-characters"})
    for i in range(2):
        sh.append({"kind": "fold", "part": i, "parts": 2, "tier": tier, "_name": f"fold-{i}"})
    return sh


def same_outcome(mon, ctor, base, var, kw, tag):
    ob = observe(ctor, base, **kw)
    ov = observe(ctor, var, **kw)
    mon.ev()
    mon.distinct((tag, base, var, tuple(sorted(kw.items()))))
    w = {"base": esc(base), "variant": esc(var), "kw": kw, "class": tag}
    if ob.ok != ov.ok:
        mon.viol(f"{tag}:decoration_changes_verdict", w, ob.brief(), ov.brief())
        return ob, ov
    if ob.ok:
        if str(ob.value) != str(ov.value) or ob.value != ov.value or hash(ob.value) != hash(ov.value):
            mon.viol(f"{tag}:decoration_changes_object", w, esc(str(ob.value)), esc(str(ov.value)))
        s = str(ov.value)
        if any(c.isspace() for c in s) or any("a" <= c <= "z" for c in s):
            mon.viol(f"{tag}:compact_form_not_clean", w, "no whitespace / lower case", esc(s))
        if soft_attr(ov.value, "compact", s) != s:
            mon.viol(f"{tag}:compact_differs_from_str", w, esc(s), esc(soft_attr(ov.value, "compact", s)))
    else:
        for o in (ob, ov):
            if not judge.is_lib_exc(o.exc):
                mon.viol(f"{tag}:escape:{o.exc_name}", w, "library error", o.brief())
        mon.tally("both_rejected")
    return ob, ov


def check_formatted_iban(mon, S, obj):
    s = str(obj)
    want = " ".join(s[i : i + 4] for i in range(0, len(s), 4))
    got = obj.formatted
    w = {"iban": s}
    if got != want:
        mon.viol("iban_formatted_wrong", w, want, got)
    for src in (got, s, want.lower(), "  " + want.replace(" ", " \t") + "\n"):
        o = observe(S.IBAN, src)
        if not o.ok or o.value != obj or str(o.value) != s:
            mon.viol("iban_reparse_not_equal", {**w, "source": esc(src)}, s, o.brief())
    mon.tally("iban_formatted_checked")


def check_formatted_bic(mon, S, obj, kw):
    s = str(obj)
    parts = [s[0:4], s[4:6], s[6:8]] + ([s[8:11]] if len(s) == 11 else [])
    want = " ".join(parts)
    got = obj.formatted
    w = {"bic": s}
    if got != want:
        mon.viol("bic_formatted_wrong", w, want, got)
    for src in (got, s, want.lower()):
        o = observe(S.BIC, src, **kw)
        if not o.ok or o.value != obj or str(o.value) != s:
            mon.viol("bic_reparse_not_equal", {**w, "source": esc(src)}, s, o.brief())
    mon.tally("bic_formatted_checked")


def run_iban(shard, mon, S):
    table = data.countries()
    n = SIZES[shard["tier"]]["per_country"]
    if shard.get("saturate"):
        # a process that has already seen thousands of different characters (none of them whitespace): whatever
        # the normalisation remembers about characters, blanks it meets afterwards for the first time still go
        import unicodedata  # noqa: PLC0415

        fed = 0
        for cp in range(0xA1, 0x3000):
            ch = chr(cp)
            if ch.isspace() or unicodedata.category(ch) in ("Cn", "Cs", "Zs", "Zl", "Zp", "Cc"):
                continue
            for f_ in (lambda: S.IBAN("DE89" + ch + "370400440532013000"), lambda: S.BIC("DEUT" + ch + "EFF", allow_invalid=True)):
                try:
                    f_()
                except Exception:  # noqa: BLE001, S110
                    pass
            fed += 1
        mon.tally("distinct_non_ascii_characters_seen_before_decorating", fed)
    for cc in shard["countries"]:
        rng = env.rng("C10", cc)
        bases = gen.valid_ibans(cc, table[cc], rng, n)
        for i, b in enumerate(bases):
            if i % 3 == 1:
                b = b[:-1] + ("0" if b[-1] != "0" else "1")  # invalid check digits
            elif i % 7 == 3:
                b = gen.edit_fuzz(b, rng, 1)
                b = "".join(c for c in b if not c.isspace())
            kw = {"validate_bban": True} if i % 4 == 0 else {}
            if i == 0:
                # texts that start with a printed label: all spellings of such a text are judged alike too
                for lab in gen.labelled(b)[:8]:
                    for var in gen.decorate(lab, rng):
                        same_outcome(mon, S.IBAN, lab, var, {}, "iban_labelled")
                        same_outcome(mon, S.IBAN, lab, var, {"allow_invalid": True}, "iban_labelled_unvalidated")
            for var in gen.decorate(b, rng):
                ob, ov = same_outcome(mon, S.IBAN, b, var, kw, "iban")
            if ob.ok:
                check_formatted_iban(mon, S, ob.value)
            # a nationally invalid twin, parsed with default flags first and then - base and variants - with
            # national validation: all spellings must still be judged alike
            if i % 4 == 0 and cc in N.CHECK_FIELD and N.LENGTHS.get(cc) == table[cc]["bban_length"]:
                fb = N.force_valid(cc, bases[i][4:])
                if fb:
                    s_, e_ = N.CHECK_FIELD[cc]
                    kcls = R.position_classes(table[cc]["bban_spec"])[s_]
                    bad = R.make_iban(cc, fb[:s_] + "".join(kcls[(kcls.index(c) + 1) % len(kcls)] for c in fb[s_:e_]) + fb[e_:])
                    observe(S.IBAN, bad)
                    for var in gen.decorate(bad, rng)[:6]:
                        observe(S.IBAN, var) if rng.random() < 0.3 else None
                        same_outcome(mon, S.IBAN, bad, var, {"validate_bban": True}, "iban_after_plain_parse")
            # allow_invalid objects normalise the same way
            for var in gen.decorate(b, rng)[:3]:
                same_outcome(mon, S.IBAN, b, var, {"allow_invalid": True}, "iban_unvalidated")
            for var in gen.decorate(b, rng, gen.WS_OTHER)[:2]:
                observe(S.IBAN, var)  # observe-only zone
                mon.tally("observed_only_other_unicode_space")
        # components handed to the generator are input texts as well (C08: stripped, upper-cased)
        pos = data.positions(table[cc])
        if "bank_code" in pos and "account_code" in pos:
            for b in bases[:3]:
                bb = b[4:]
                comp = {k: bb[pos[k][0] : pos[k][1]] for k in ("bank_code", "account_code", "branch_code") if k in pos}
                og = observe(S.IBAN.generate, cc, bank_code=comp["bank_code"], account_code=comp["account_code"], branch_code=comp.get("branch_code", ""))
                if comp.get("branch_code"):
                    # a component that is empty stays empty when it is written as whitespace: the bank code of
                    # combined width with the branch given as "", " ", tab, NBSP, line break
                    merged = comp["bank_code"] + comp["branch_code"]
                    om = observe(S.IBAN.generate, cc, bank_code=merged, account_code=comp["account_code"], branch_code="")
                    for blank in (" ", "\t", "\u00a0", " \n ", "\u2007"):
                        ob_ = observe(S.IBAN.generate, cc, bank_code=merged, account_code=comp["account_code"], branch_code=blank)
                        mon.ev()
                        mon.tally("generate_variants_blank_component")
                        if om.ok != ob_.ok or (om.ok and str(om.value) != str(ob_.value)):
                            mon.viol("generate:blank_component_differs_from_empty", {"country": cc, "bank_code": merged, "branch_code": esc(blank)}, om.brief(), ob_.brief())
                # neighbouring fields written into one component (branch + account as the account code, bank + branch
                # + account as the bank code, ...), and the components read off a parsed IBAN fed back to
                # from_components including its national check digits: decoration changes nothing either
                shapes = []
                if comp.get("branch_code"):
                    shapes.append({"bank_code": comp["bank_code"], "account_code": comp["branch_code"] + comp["account_code"], "branch_code": ""})
                    shapes.append({"bank_code": comp["bank_code"] + comp["branch_code"] + comp["account_code"], "account_code": "", "branch_code": ""})
                shapes.append({"bank_code": comp["bank_code"], "account_code": comp["bank_code"] + comp["account_code"], "branch_code": comp.get("branch_code", "")})
                for sh_ in shapes:
                    o0 = observe(S.IBAN.generate, cc, **sh_)
                    for _ in range(3):
                        v_ = {k: (rng.choice(gen.decorate(x, rng)) if x else x) for k, x in sh_.items()}
                        o1 = observe(S.IBAN.generate, cc, **v_)
                        mon.ev()
                        mon.tally("generate_variants_joined_fields")
                        if o0.ok != o1.ok or (o0.ok and str(o0.value) != str(o1.value)):
                            mon.viol("generate:decoration_of_components_changes_outcome", {"country": cc, "components": sh_, "variant": {k: esc(x) for k, x in v_.items()}}, o0.brief(), o1.brief())
                ob0 = observe(S.IBAN, b)
                if ob0.ok:
                    full = {k: getattr(ob0.value, k) for k in ("bank_code", "branch_code", "account_code", "national_checksum_digits", "account_type", "account_id", "currency_code") if getattr(ob0.value, k, "")}
                    f0 = observe(S.BBAN.from_components, cc, **full)
                    for _ in range(4):
                        v_ = {k: rng.choice(gen.decorate(x, rng)[:12] + [x.lower(), " " + x, x + "\n"]) for k, x in full.items()}
                        f1 = observe(S.BBAN.from_components, cc, **v_)
                        mon.ev()
                        mon.tally("from_components_variants_of_parsed_components")
                        if f0.ok != f1.ok or (f0.ok and str(f0.value) != str(f1.value)):
                            mon.viol("from_components:decoration_of_components_changes_outcome", {"country": cc, "components": full, "variant": {k: esc(x) for k, x in v_.items()}}, f0.brief(), f1.brief())
                for _ in range(3):
                    var = {k: rng.choice(gen.decorate(v, rng)) if v else v for k, v in comp.items()}
                    ov = observe(S.IBAN.generate, cc, bank_code=var["bank_code"], account_code=var["account_code"], branch_code=var.get("branch_code", ""))
                    mon.ev()
                    mon.distinct(("generate", cc, tuple(sorted(var.items()))))
                    w = {"country": cc, "components": comp, "variant": {k: esc(v) for k, v in var.items()}}
                    if og.ok != ov.ok or (og.ok and str(og.value) != str(ov.value)):
                        mon.viol("generate:decoration_of_components_changes_outcome", w, og.brief(), ov.brief())
                    mon.tally("generate_variants")
        mon.sample({"base": bases[0], "variant": esc(gen.decorate(bases[0], rng)[5])})


def fold_chars():
    import unicodedata  # noqa: PLC0415

    out = []
    for cp in list(range(0xA0, 0x3400)) + list(range(0xA640, 0xA800)) + list(range(0xFB00, 0xFFF0)) + list(range(0x1D400, 0x1D800)) + list(range(0x1F100, 0x1F200)):
        c = chr(cp)
        n = unicodedata.normalize("NFKC", c)
        if n != c and n and all(x in R.ALNUM + R.ALNUM.lower() + " " for x in n):
            out.append(c)
    return out


def run_fold(shard, mon, S):
    """A character that some normalisation would fold into a letter, a digit or a blank, put where that letter
    / digit / blank would make the text valid: whatever is accepted must have a clean compact form and re-parse
    to an equal object; unvalidated objects must be stable under re-parsing of their own compact form."""
    import unicodedata  # noqa: PLC0415

    table = data.countries()
    rng = env.rng("C10", "fold")
    chars = fold_chars()[shard["part"] :: shard["parts"]]
    gb = R.make_iban("GB", "NWBK" + "".join(rng.choice(R.DIGITS) for _ in range(14)))
    de = R.make_iban("DE", gen.random_bban(table["DE"], rng))
    for c in chars:
        n = unicodedata.normalize("NFKC", c).upper()
        cands = []
        if len(n) == 1 and n in R.UPPER:
            b = R.make_iban("GB", n + "WBK" + gb[8:])
            cands += [("iban", b[:4] + c + b[5:]), ("bic", c + "ENODEM1GLS"), ("bic", "GENODEM1GL" + c)]
        elif len(n) == 1 and n in R.DIGITS:
            b = R.make_iban("DE", de[4:-1] + n)
            cands += [("iban", b[:-1] + c), ("bic", "GENODEM" + c + "GLS")]
        else:
            cands += [("iban", de[:8] + c + de[8:]), ("bic", "GENO" + c + "DEM1GLS")]
        for kind_, t in cands:
            ctor = S.IBAN if kind_ == "iban" else S.BIC
            o = observe(ctor, t)
            ou = observe(ctor, t, allow_invalid=True)
            mon.ev()
            mon.distinct(("fold", kind_, t))
            w = {"text": esc(t), "character": esc(c), "nfkc": n, "class": kind_}
            if o.ok:
                s = str(o.value)
                if any(ch.isspace() for ch in s) or any("a" <= ch <= "z" for ch in s):
                    mon.viol(f"{kind_}:compact_form_not_clean:folded_character", w, "no whitespace / lower case", esc(s))
                r1, r2 = observe(ctor, s), observe(ctor, o.value.formatted)
                if not r1.ok or not r2.ok or r1.value != o.value or r2.value != o.value or str(r1.value) != s:
                    mon.viol(f"{kind_}:reparse_not_equal:folded_character", w, esc(s), [r1.brief(), r2.brief()])
            if ou.ok:
                s = str(ou.value)
                r3 = observe(ctor, s, allow_invalid=True)
                if not r3.ok or str(r3.value) != s or r3.value != ou.value:
                    mon.viol(f"{kind_}:unvalidated_compact_form_not_stable:folded_character", w, esc(s), r3.brief())
                if o.ok != observe(ctor, s).ok:
                    mon.viol(f"{kind_}:text_and_its_own_compact_form_judged_differently", w, o.brief(), esc(s))
    mon.tally("fold_characters", len(chars))
    mon.sample({"folded_character_example": esc(chars[0]) if chars else None})


def run_bic(shard, mon, S):
    rng = env.rng("C10", "bic", shard["part"])
    for i in range(SIZES[shard["tier"]]["bics"] // shard["parts"]):
        b = rand_bic(rng)
        if i % 3 == 1:
            b = gen.edit_fuzz(b, rng, 1)
            b = "".join(c for c in b if not c.isspace())
        kw = {"enforce_swift_compliance": True} if i % 2 else {}
        for var in gen.decorate(b, rng):
            ob, ov = same_outcome(mon, S.BIC, b, var, kw, "bic")
        if ob.ok:
            check_formatted_bic(mon, S, ob.value, kw)
        for var in gen.decorate(b, rng)[:2]:
            same_outcome(mon, S.BIC, b, var, {"allow_invalid": True}, "bic_unvalidated")
    mon.sample({"base": b, "variant": esc(gen.decorate(b, rng)[3])})


def run_shard(shard, out_base):
    if shard.get("kind") == "contracts":
        from vf import suite  # noqa: PLC0415

        return suite.run_contract_shard("C10", out_base)
    mon = Mon("C10")
    S = judge.lib()
    {"iban": run_iban, "bic": run_bic, "fold": run_fold}[shard["kind"]](shard, mon, S)
    return mon.result(out_base)


def finish(m, tier, seed):
    t = m["tallies"]
    if t.get("iban_formatted_checked", 0) < 100 or t.get("bic_formatted_checked", 0) < 100:
        m["inconclusive"].append("formatted monitor reached too rarely")
    return {}
