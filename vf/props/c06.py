"""C06 — national check digits are judged by the country's published algorithm."""
from __future__ import annotations

from random import Random

from vf import env, gen, judge
from vf.lib import Mon, observe
from vf.ref import data
from vf.ref import iban as R
from vf.ref import national as N

META = {
    "level": "exploration",
    "rule": (
        "per country with a published national algorithm (22): structure-conforming BBANs, half of them forced "
        "valid by the independent reference R-NAT, twins differing only in the check field, library-drawn IBANs; "
        "three entry points (constructor flag, validate(validate_bban=True), bban.validate_national_checksum()) "
        "compared with R-NAT; all other non-German countries: outcome with the flag must equal outcome without; "
        "distinct = distinct (country, BBAN) on which R-NAT was definite and all entry points were compared"
    ),
    "assumptions": [
        "R-NAT (vf/ref/national.py) encodes the published national rules on the published absolute BBAN layouts",
        "DONT_CARE: Norway when the account part starts with 00 and the two published readings disagree; countries whose BBAN length in the tree differs from the published layout",
    ],
    "min_distinct": {"quick": 10000, "thorough": 800000},
}
SIZES = {"quick": dict(per=600, other=40, lib=60), "thorough": dict(per=40000, other=2500, lib=3000)}


def plan(tier, seed):
    table = data.countries()
    nat = [c for c in N.COUNTRIES if c in table]
    other = [c for c in sorted(table) if c not in N.LENGTHS and c != "DE"]
    shards = [{"kind": "nat", "countries": [c], "tier": tier, "_name": f"nat-{c}"} for c in nat]
    shards.append({"kind": "mixed", "countries": nat, "tier": tier, "_name": "nat-mixed"})
    for i, ch in enumerate(gen.chunk(nat, 4 if tier == "quick" else 11)):
        shards.append({"kind": "listed", "countries": ch, "tier": tier, "_name": f"nat-listed-{i}"})
    for i, ch in enumerate(gen.chunk(other, 6 if tier == "quick" else 16)):
        shards.append({"kind": "other", "countries": ch, "tier": tier, "_name": f"other-{i}"})
    shards.append({"kind": "contracts", "tier": tier, "_name": "contracts"})
    return shards


def _foreign_labels(cc, table):
    """Two other country codes: one without a national algorithm, one whose algorithm differs."""
    without = [c for c in ("CV", "NL", "GB", "AT") if c != cc and c in table and c not in N.COUNTRIES][:1]
    with_ = [c for c in ("ES", "BE", "IT", "NO") if c != cc and c in table and c in N.COUNTRIES][:1]
    return without + with_


def judge_one(mon: Mon, S, cc, bban, table, tag):
    """One otherwise-valid IBAN of a national-algorithm country through all entry points."""
    text = R.make_iban(cc, bban)
    exp = R.expect_iban(text, table)
    if exp.verdict != R.ACCEPT:
        mon.tally("skipped_not_structurally_valid")
        return
    want = N.verdict(cc, bban, table[cc]["bban_length"])
    mon.ev()
    mon.tally(f"ref_{want}")
    w = {"country": cc, "bban": bban, "iban": text, "family": tag}
    o_plain = observe(S.IBAN, text)
    o_flag = observe(S.IBAN, text, validate_bban=True)
    if not o_plain.ok:
        mon.viol("plain_validation_rejects_reference_valid_iban", w, "ACCEPT", o_plain.brief())
        return
    o_val = observe(o_plain.value.validate, validate_bban=True)
    o_bb = observe(o_plain.value.bban.validate_national_checksum)
    for name, o in (("ctor", o_flag), ("validate", o_val), ("bban", o_bb)):
        if not o.ok and not judge.is_lib_exc(o.exc):
            mon.viol(f"escape:{name}:{o.exc_name}", w, "library error", o.brief())
    if o_flag.ok != o_val.ok or o_flag.ok != o_bb.ok:
        mon.viol("entry_points_disagree", w, o_flag.brief(), [o_val.brief(), o_bb.brief()])
    judge.repeated_validation_consistent(mon, text, o_flag, w)
    for form, arg in (("str", bban), ("BBAN", S.BBAN(cc, bban))):
        ofb = observe(S.IBAN.from_bban, cc, arg, validate_bban=True)
        ofp = observe(S.IBAN.from_bban, cc, arg, False, True)
        if ofb.ok != o_flag.ok or ofp.ok != o_flag.ok:
            mon.viol(f"from_bban_with_flag_disagrees:{form}", w, o_flag.brief(), [ofb.brief(), ofp.brief()])
    # the BBAN-level check asked of an object whose country code is spelt non-canonically: a library error (the
    # code is unknown as spelt) or the verdict of the canonical spelling - never a silent "passed"
    for carg in (cc.lower(), cc[0] + cc[1].lower(), cc + " "):
        onc = observe(lambda: S.BBAN(carg, bban).validate_national_checksum())
        mon.tally("bban_check_with_non_canonical_country_code")
        if onc.ok and not o_bb.ok:
            mon.viol("bban_check_passes_under_non_canonical_country_code", {**w, "country_arg": carg}, o_bb.brief(), onc.brief())
        elif not onc.ok and not judge.is_lib_exc(onc.exc):
            mon.viol(f"escape:bban_check:{onc.exc_name}", {**w, "country_arg": carg}, "library error", onc.brief())
    # a BBAN object with this text but labelled with another country (one without / one with another algorithm)
    for other in _foreign_labels(cc, table):
        off = observe(S.IBAN.from_bban, cc, S.BBAN(other, bban), validate_bban=True)
        mon.tally("foreign_bban_object_with_flag")
        if off.ok != o_flag.ok:
            mon.viol("from_bban_with_flag_disagrees:BBAN_object_of_other_country", {**w, "bban_object_country": other}, o_flag.brief(), off.brief())
        elif off.ok:
            ov2 = observe(off.value.validate, validate_bban=True)
            if not ov2.ok or str(off.value) != text:
                mon.viol("from_bban_with_flag_disagrees:BBAN_object_of_other_country:validate_again", {**w, "bban_object_country": other}, text, [str(off.value), ov2.brief()])
    judge.call_forms_agree(mon, "iban", text, True, o_flag, w)
    if o_bb.ok and o_bb.value is not True:
        mon.viol("bban_check_success_not_true", w, True, o_bb.brief())
    if o_val.ok and o_val.value is not True:
        mon.viol("validate_success_not_true", w, True, o_val.brief())
    if not o_bb.ok and judge.is_lib_exc(o_bb.exc) and not o_bb.is_a("InvalidBBANChecksum", "InvalidAccountCode"):
        mon.viol(f"bban_check_failure_class:{o_bb.exc_name}", w, "InvalidBBANChecksum", o_bb.brief())
    if not o_flag.ok and judge.is_lib_exc(o_flag.exc) and not o_flag.is_a("InvalidBBANChecksum", "InvalidAccountCode"):
        mon.viol(f"national_failure_class:{o_flag.exc_name}", w, "InvalidBBANChecksum", o_flag.brief())
    if want == R.DONT_CARE:
        return
    mon.distinct((cc, bban))
    if o_flag.ok and want == R.REJECT:
        mon.viol(f"false_accept:{cc}", w, "REJECT (published algorithm)", o_flag.brief())
    elif not o_flag.ok and want == R.ACCEPT:
        mon.viol(f"false_reject:{cc}", w, "ACCEPT (published algorithm)", o_flag.brief())
    mon.tally("lib_accept" if o_flag.ok else "lib_reject")


def run_nat(shard, mon, S, table):
    sz = SIZES[shard["tier"]]
    for cc in shard["countries"]:
        spec = table[cc]
        rng = env.rng("C06", cc)
        forced = 0
        # every field (and every structure block) once all zeros and once all nines, the rest random: with the
        # reference's check digits, and with whatever digits chance gives (mostly wrong ones)
        cls_all = R.position_classes(spec["bban_spec"]) or []
        spans = {tuple(v) for v in data.positions(spec).values() if v[1] > v[0]}
        off = 0
        for lo_, hi_, _k in R.parse_spec(spec["bban_spec"]) or []:
            spans.add((off, off + hi_))
            off += hi_
        for s_, e_ in sorted(spans):
            for fill in "09":
                if not all(fill in cls_all[i] for i in range(s_, min(e_, len(cls_all)))):
                    continue
                for _ in range(4):
                    b = gen.random_bban(spec, rng, "digits")
                    b = b[:s_] + fill * (e_ - s_) + b[e_:]
                    fb = N.force_valid(cc, b)
                    if fb is not None and fb[s_:e_] == fill * (e_ - s_) and R.matches_spec(spec["bban_spec"], fb):
                        judge_one(mon, S, cc, fb, table, f"field-all-{fill}-forced")
                    if R.matches_spec(spec["bban_spec"], b):
                        judge_one(mon, S, cc, b, table, f"field-all-{fill}")
                    mon.tally("fields_filled_with_zeros_or_nines")
        for i in range(sz["per"]):
            style = gen.STYLES[i % len(gen.STYLES)] if i % 5 == 0 else "uniform"
            b = gen.random_bban(spec, rng, style)
            if i % 2 == 0:
                fb = N.force_valid(cc, b)
                if fb is not None and R.matches_spec(spec["bban_spec"], fb):
                    b = fb
                    forced += 1
            judge_one(mon, S, cc, b, table, "forced" if i % 2 == 0 else "random")
            if i % 8 == 0 and cc in N.CHECK_FIELD:
                # twins: same body, every (or several) other check-field values
                s, e = N.CHECK_FIELD[cc]
                cls = R.position_classes(spec["bban_spec"])[s]
                if e - s == 1:
                    alts = [c for c in cls]
                else:
                    alts = ["".join(rng.choice(cls) for _ in range(e - s)) for _ in range(6)] + ["00", "97", "98", "99", "01"]
                for a in alts:
                    t = b[:s] + a + b[e:]
                    if R.matches_spec(spec["bban_spec"], t):
                        judge_one(mon, S, cc, t, table, "twin")
        mon.tally(f"forced_valid_{cc}", forced)
        # library-drawn IBANs as additional inputs
        for k in range(sz["lib"]):
            o = observe(S.IBAN.random, cc, random=Random(f"{env.seed()}/{cc}/{k}"))
            if o.ok:
                judge_one(mon, S, cc, str(o.value)[4:], table, "libdraw")
        mon.sample({"country": cc, "forced_valid_example": R.make_iban(cc, N.force_valid(cc, gen.random_bban(spec, rng)) or "")})


def run_mixed(shard, mon, S, table):
    """All national-algorithm countries interleaved in ONE process, fed with the same digit strings so that
    equally long bodies coincide: state shared between countries' algorithm objects would show here."""
    rng = env.rng("C06", "mixed")
    n = 40 if shard["tier"] == "quick" else 1500
    for k in range(n):
        D = "".join(rng.choice(R.DIGITS) for _ in range(40))
        order = list(shard["countries"])
        rng.shuffle(order)
        for cc in order:
            spec = table[cc]
            if N.LENGTHS.get(cc) != spec["bban_length"]:
                continue
            b = N.body_fill(cc, D, spec["bban_length"])
            fb = N.force_valid(cc, b)
            if fb is None or not R.matches_spec(spec["bban_spec"], fb):
                continue
            judge_one(mon, S, cc, fb, table, "mixed")
            if cc in N.CHECK_FIELD:
                s_, e_ = N.CHECK_FIELD[cc]
                cls = R.position_classes(spec["bban_spec"])[s_]
                alt = fb[:s_] + "".join(cls[(cls.index(c) + 1) % len(cls)] for c in fb[s_:e_]) + fb[e_:]
                judge_one(mon, S, cc, alt, table, "mixed-twin")
    # the very same BBAN text validated nationally under two countries, in both orders: for every algorithm
    # country B and every country A of equal length whose structure admits B's text
    for B in sorted(c_ for c_ in shard["countries"] if N.LENGTHS.get(c_) == table[c_]["bban_length"]):
        partners = [a_ for a_ in sorted(table) if a_ != B and table[a_]["bban_length"] == table[B]["bban_length"]]
        for A in partners[: 6 if shard["tier"] == "quick" else 40]:
            for first in (A, B):
                fb = None
                for _ in range(30):
                    cand = N.force_valid(B, gen.random_bban(table[B], rng, "digits" if _ < 25 else "uniform"))
                    if cand and R.matches_spec(table[B]["bban_spec"], cand) and R.matches_spec(table[A]["bban_spec"], cand):
                        fb = cand
                        break
                if fb is None:
                    break
                second = B if first == A else A
                observe(S.IBAN, R.make_iban(first, fb), validate_bban=True)
                observe(lambda: S.BBAN(first, fb).validate_national_checksum())
                if second in N.LENGTHS and N.LENGTHS.get(second) == table[second]["bban_length"]:
                    judge_one(mon, S, second, fb, table, f"same-text-after-{first}")
                if first in N.LENGTHS and N.LENGTHS.get(first) == table[first]["bban_length"]:
                    judge_one(mon, S, first, fb, table, f"same-text-again-after-{second}")
                mon.tally("same_bban_text_under_two_countries")
    mon.tally("mixed_rounds", n)
    mon.sample({"mixed_digit_string": D, "countries": order[:5]})


def run_listed(shard, mon, S, table):
    """Every listed bank of the national-algorithm countries (bank records can carry their own algorithm
    name): a reference-valid BBAN around the bank must be accepted, its twin with another check field rejected."""
    from vf.props.c12 import build_iban_around  # noqa: PLC0415
    from vf.ref import lookup  # noqa: PLC0415

    idx = lookup.by_key()
    cap = 700 if shard["tier"] == "quick" else 10**9
    for cc in shard["countries"]:
        spec = table[cc]
        rng = env.rng("C06", "listed", cc)
        keys = [k for k in sorted(idx) if k[0] == cc]
        if len(keys) > cap:
            keys = rng.sample(keys, cap)
        for _, code in keys:
            t = build_iban_around(cc, code, table, rng)
            if t is None:
                continue
            fb = N.force_valid(cc, t[4:])
            if fb is None or not R.matches_spec(spec["bban_spec"], fb):
                continue
            judge_one(mon, S, cc, fb, table, "listed")
            if cc in N.CHECK_FIELD:
                s_, e_ = N.CHECK_FIELD[cc]
                cls = R.position_classes(spec["bban_spec"])[s_]
                alt = fb[:s_] + "".join(cls[(cls.index(c) + 1) % len(cls)] for c in fb[s_:e_]) + fb[e_:]
                judge_one(mon, S, cc, alt, table, "listed-twin")
            mon.tally("listed_banks_judged")


def run_other(shard, mon, S, table):
    sz = SIZES[shard["tier"]]
    try:
        from schwifty.checksum import algorithms  # noqa: PLC0415
    except Exception:  # noqa: BLE001
        algorithms = {}
    for cc in shard["countries"]:
        if f"{cc}:default" in algorithms:
            # the library knows a national algorithm the reference does not: not judged, reported as uncovered
            mon.tally("countries_with_algorithm_unknown_to_reference")
            mon.notes.setdefault("uncovered_algorithms", []).append(cc)
            continue
        spec = table[cc]
        rng = env.rng("C06o", cc)
        for i in range(sz["other"]):
            t = R.make_iban(cc, gen.random_bban(spec, rng))
            if i % 3 == 2:
                t = gen.edit_fuzz(t, rng, 1)
            mon.ev()
            o_plain = observe(S.IBAN, t)
            o_flag = observe(S.IBAN, t, validate_bban=True)
            w = {"country": cc, "text": t}
            if o_plain.ok != o_flag.ok or (not o_plain.ok and o_plain.exc_name != o_flag.exc_name):
                mon.viol("flag_changes_outcome_for_country_without_algorithm", w, o_plain.brief(), o_flag.brief())
            if o_plain.ok:
                o_bb = observe(o_plain.value.bban.validate_national_checksum)
                if not o_bb.ok or o_bb.value is not True:
                    mon.viol("bban_check_not_true_without_algorithm", w, True, o_bb.brief())
                mon.distinct((cc, t))
                mon.tally("other_accept")
            else:
                mon.tally("other_reject")
        mon.tally("other_countries")


def run_shard(shard, out_base):
    if shard.get("kind") == "contracts":
        from vf import suite  # noqa: PLC0415

        return suite.run_contract_shard("C06", out_base)
    mon = Mon("C06")
    S = judge.lib()
    table = data.countries()
    if shard["kind"] == "nat":
        run_nat(shard, mon, S, table)
    elif shard["kind"] == "mixed":
        run_mixed(shard, mon, S, table)
    elif shard["kind"] == "listed":
        run_listed(shard, mon, S, table)
    else:
        run_other(shard, mon, S, table)
    # monotonicity is implied by construction (flagged call is only made on plain-valid IBANs for nat
    # countries); for 'other' it is checked directly above.
    return mon.result(out_base)


def finish(m, tier, seed):
    t = m["tallies"]
    if t.get("ref_ACCEPT", 0) < 100 or t.get("ref_REJECT", 0) < 100:
        m["inconclusive"].append("accept or reject side of the national oracle under-populated")
    missing = [c for c in N.COUNTRIES if c in data.countries() and not t.get(f"forced_valid_{c}")]
    if missing:
        m["inconclusive"].append(f"no reference-valid BBAN could be forced for {missing}")
    return {"national_countries": len(N.COUNTRIES)}
