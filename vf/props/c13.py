"""C13 — random generation is always valid, honours pinned fields, and is reproducible."""
from __future__ import annotations

import hashlib
import itertools
from random import Random

from vf import env, gen, judge
from vf.lib import Mon, observe
from vf.ref import data, lookup
from vf.ref import iban as R
from vf.ref import national as N

META = {
    "level": "exploration",
    "rule": (
        "every country (and the no-country form) x seeds x {registry, no registry} x subsets of pinned components "
        "(exact-width, class-conforming values): IBAN.random / BBAN.random must return an R-IBAN-valid IBAN (a "
        "structure-conforming BBAN) of the requested country with every pinned field unchanged, or raise "
        "GenerateRandomOverflowError; an equally seeded generator gives the identical result in-process, and the "
        "digest of a fixed battery of draws is identical across fresh processes under different PYTHONHASHSEED "
        "values; registry draws in countries all of whose entries carry a bank code belong to a listed bank; "
        "distinct = distinct (country, seed, mode, pins) draws judged"
    ),
    "assumptions": ["pins shorter/longer/wrong-class are executed under the totality monitor only", "national_checksum_digits pinned only where no computing algorithm exists"],
    "prelude": False,
    "threads_copy": False,
    "min_distinct": {"quick": 5000, "thorough": 150000},
}
SIZES = {"quick": dict(seeds=24, pin_draws=30, battery=6), "thorough": dict(seeds=1000, pin_draws=400, battery=100)}
HASHSEEDS = {"quick": ["0", "1", "4242"], "thorough": ["0", "1", "2", "7", "4242", "99999", "123456789", "random"]}


def plan(tier, seed):
    cs = sorted(data.countries())
    sh = [{"kind": "draw", "countries": c, "tier": tier, "_name": f"draw-{i}"} for i, c in enumerate(gen.chunk(cs, 14 if tier == "quick" else 42))]
    counts: dict = {}
    for e in data.banks():
        if e.get("country_code") in set(cs):
            counts[e["country_code"]] = counts.get(e["country_code"], 0) + 1
    flat = [(cc, k) for cc in sorted(counts) for k in range(counts[cc])]
    nb = 12 if tier == "quick" else 16
    per = (len(flat) + nb - 1) // nb
    for i in range(nb):
        part = flat[i * per : (i + 1) * per]
        ranges = []
        for cc, k in part:
            if ranges and ranges[-1][0] == cc and ranges[-1][2] == k:
                ranges[-1][2] = k + 1
            else:
                ranges.append([cc, k, k + 1])
        sh.append({"kind": "banks", "ranges": ranges, "tier": tier, "_name": f"banks-{i}"})
    sh.append({"kind": "threads", "tier": tier, "_name": "threads"})
    for hs in HASHSEEDS[tier]:
        sh.append({"kind": "digest", "tier": tier, "_env": {"PYTHONHASHSEED": hs}, "hashseed": hs, "_name": f"digest-{hs}"})
    return sh


class PickRandom(Random):
    """A generator whose first choice among registry bank entries is entry number k: lets the registry-based
    draw visit every listed bank instead of waiting for a seed to land on it."""

    def __init__(self, seed, k):
        super().__init__(seed)
        self.k = k
        self.used = False

    def choice(self, seq):
        if not self.used and len(seq) and isinstance(seq[0], dict):
            self.used = True
            return seq[self.k % len(seq)]
        return super().choice(seq)


def run_banks(shard, mon, S, table):
    by_country: dict = {}
    for e in data.banks():
        by_country.setdefault(e.get("country_code"), []).append(e)
    for cc, lo, hi in shard["ranges"]:
        spec = table.get(cc)
        if not spec:
            continue
        for k in range(lo, min(hi, len(by_country.get(cc, [])))):
            o = observe(S.IBAN.random, cc, random=PickRandom(f"pick/{cc}/{k}", k))
            mon.ev()
            mon.distinct(("bankdraw", cc, k))
            w = {"country": cc, "bank_entry_index": k, "bank_code": by_country[cc][k].get("bank_code")}
            if not o.ok:
                if not o.is_a("GenerateRandomOverflowError"):
                    mon.viol(f"registry_draw_raised:{o.exc_name}", w, "valid IBAN or GenerateRandomOverflowError", o.brief())
                else:
                    mon.tally("bank_draw_overflow")
                continue
            if R.expect_iban(str(o.value), table).verdict != R.ACCEPT or str(o.value)[:2] != cc:
                mon.viol("registry_draw_returned_invalid_iban", {**w, "iban": str(o.value)}, "valid IBAN of the country", str(o.value))
            ob = observe(S.BBAN.random, cc, random=PickRandom(f"pick/{cc}/{k}", k))
            if ob.ok and not R.matches_spec(spec["bban_spec"], str(ob.value)):
                mon.viol("registry_draw_bban_not_structure_conforming", {**w, "bban": str(ob.value)}, spec["bban_spec"], str(ob.value))
            mon.tally("bank_entries_drawn")


def run_threads(shard, mon, S, table):
    """Equally seeded generators must give the sequential result also when several threads draw at once."""
    import sys  # noqa: PLC0415
    import threading  # noqa: PLC0415

    cs = sorted(table)
    rng = env.rng("C13", "threads")
    jobs = [(rng.choice(cs + ["", "DE", "PL", "NO"]), f"t/{i}", bool(i % 2)) for i in range(160 if shard["tier"] == "quick" else 4000)]
    want = {}
    for cc, sd, ur in jobs:
        o = observe(S.IBAN.random, cc, random=Random(sd), use_registry=ur)
        want[(cc, sd, ur)] = str(o.value) if o.ok else "EXC:" + o.exc_name
    bad = []
    old = sys.getswitchinterval()
    sys.setswitchinterval(1e-6)
    n_threads = 8

    def body(t):
        r = Random(t)
        mine = list(jobs)
        r.shuffle(mine)
        for cc, sd, ur in mine:
            o = observe(S.IBAN.random, cc, random=Random(sd), use_registry=ur)
            got = str(o.value) if o.ok else "EXC:" + o.exc_name
            if got != want[(cc, sd, ur)]:
                bad.append((cc, sd, ur, got))

    unseeded_bad = []

    def body_unseeded(t):
        for k in range(60 if shard["tier"] == "quick" else 1500):
            cc = jobs[(t * 7 + k) % len(jobs)][0]
            o = observe(S.IBAN.random, cc)
            if o.ok:
                if R.expect_iban(str(o.value), table).verdict != R.ACCEPT:
                    unseeded_bad.append((cc, "invalid:" + str(o.value)))
            elif not o.is_a("GenerateRandomOverflowError"):
                unseeded_bad.append((cc, f"{o.exc_name}: {o.exc}"))

    ts = [threading.Thread(target=body, args=(t,), daemon=True) for t in range(n_threads)]
    ts += [threading.Thread(target=body_unseeded, args=(t,), daemon=True) for t in range(4)]
    for t in ts:
        t.start()
    for t in ts:
        t.join(900)
    sys.setswitchinterval(old)
    for cc, what in unseeded_bad[:3]:
        mon.viol("unseeded_draw_under_threads_failed", {"country": cc, "threads": len(ts)}, "valid IBAN or GenerateRandomOverflowError", what[:200])
    mon.ev(len(jobs) * n_threads)
    for j in jobs:
        mon.distinct(("thr", j))
    mon.tally("threaded_draws", len(jobs) * n_threads)
    for cc, sd, ur, got in bad[:3]:
        mon.viol("same_seed_different_result_under_threads", {"country": cc, "seed": sd, "use_registry": ur, "threads": n_threads}, want[(cc, sd, ur)], got)


def pin_value(rng, cls, s, e):
    return "".join(rng.choice(c) for c in cls[s:e])


JOURNAL: list = []  # (country, seed, use_registry, pins, outcome) of this process, replayed at its end


def judge_draw(mon, S, table, cc, seedstr, use_registry, pins, allbank):
    kw = dict(pins)
    o = observe(S.IBAN.random, cc, random=Random(seedstr), use_registry=use_registry, **kw)
    if len(JOURNAL) < 3000:
        JOURNAL.append((cc, seedstr, use_registry, dict(pins), str(o.value) if o.ok else "EXC:" + o.exc_name))
    if len(pins) > 1:
        # the same pins written in the opposite keyword order
        orv = observe(S.IBAN.random, cc, random=Random(seedstr), use_registry=use_registry, **dict(reversed(list(kw.items()))))
        if orv.ok != o.ok or (o.ok and str(orv.value) != str(o.value)):
            mon.viol("keyword_order_of_pins_changes_result", {"country": cc, "seed": seedstr, "use_registry": use_registry, "pins": pins}, o.brief(), orv.brief())
    mon.ev()
    w = {"country": cc, "seed": seedstr, "use_registry": use_registry, "pins": pins}
    mon.distinct((cc, seedstr, use_registry, tuple(sorted(pins.items()))))
    if not o.ok:
        if o.is_a("GenerateRandomOverflowError"):
            mon.tally("overflow")
        elif judge.is_lib_exc(o.exc):
            mon.viol(f"random_raised_other_library_error:{o.exc_name}", w, "IBAN or GenerateRandomOverflowError", o.brief())
        else:
            mon.viol(f"escape:random:{o.exc_name}", w, "IBAN or GenerateRandomOverflowError", o.brief())
        return None
    ib = o.value
    s = str(ib)
    exp = R.expect_iban(s, table)
    if exp.verdict != R.ACCEPT or type(ib).__name__ != "IBAN":
        mon.viol("random_returned_invalid_iban", {**w, "iban": s}, "valid IBAN", sorted(exp.defects))
    if cc and s[:2] != cc:
        mon.viol("random_returned_other_country", {**w, "iban": s}, cc, s[:2])
    for comp, v in pins.items():
        got = getattr(ib, comp)
        if got != v:
            mon.viol(f"pinned_component_changed:{comp}:{'registry' if use_registry else 'noregistry'}", {**w, "iban": s}, v, got)
    # reading the result (all accessors) must not influence the next equally seeded draw
    for attr in ("bank_code", "branch_code", "account_code", "national_checksum_digits", "bank", "bic", "bank_name", "country", "in_sepa_zone", "spec", "formatted"):
        observe(getattr, ib, attr)
        observe(getattr, ib.bban, attr)
    # reproducibility in-process
    o2 = observe(S.IBAN.random, cc, random=Random(seedstr), use_registry=use_registry, **kw)
    if not o2.ok or str(o2.value) != s:
        mon.viol("same_seed_different_result_in_process", {**w, "first": s}, s, o2.brief())
    if not pins:
        # the documented parameter order, used positionally
        o3 = observe(S.IBAN.random, cc, Random(seedstr), use_registry)
        o4 = observe(S.BBAN.random, cc, Random(seedstr), use_registry)
        if not o3.ok or str(o3.value) != s:
            mon.viol("positional_arguments_change_result", {**w, "first": s}, s, o3.brief())
        if not o4.ok or str(o4.value) != s[4:]:
            mon.viol("positional_arguments_change_result:bban", {**w, "first": s}, s[4:], o4.brief())
    if use_registry and not pins and s[:2] in allbank and ib.bank is None:
        mon.viol("registry_draw_not_a_listed_bank", {**w, "iban": s}, "listed bank", None)
    if use_registry and not pins and s[:2] in allbank:
        mon.tally("registry_draw_listed_bank")
    mon.tally("returned")
    return s


def all_bank_countries():
    by = {}
    for e in data.banks():
        by.setdefault(e.get("country_code"), []).append(e)
    return {c for c, es in by.items() if all(e.get("bank_code") for e in es)}


def run_draw(shard, mon, S, table):
    sz = SIZES[shard["tier"]]
    allbank = all_bank_countries()
    mon.notes["countries_all_entries_with_bank_code"] = len(allbank)
    for cc in shard["countries"]:
        spec = table[cc]
        pos = data.positions(spec)
        cls = R.position_classes(spec["bban_spec"])
        rng = env.rng("C13", cc)
        for k in range(sz["seeds"]):
            for ur in (True, False):
                judge_draw(mon, S, table, cc, f"{env.seed()}/{cc}/{k}", ur, {}, allbank)
        # BBAN.random structure
        for k in range(max(2, sz["seeds"] // 2)):
            for ur in (True, False):
                o = observe(S.BBAN.random, cc, random=Random(f"b{env.seed()}/{cc}/{k}"), use_registry=ur)
                mon.ev()
                if o.ok:
                    b = str(o.value)
                    if not R.matches_spec(spec["bban_spec"], b) or o.value.country_code != cc:
                        mon.viol("bban_random_not_structure_conforming", {"country": cc, "bban": b, "use_registry": ur}, spec["bban_spec"], b)
                    mon.tally("bban_returned")
                elif not o.is_a("GenerateRandomOverflowError"):
                    mon.viol(f"bban_random_raised:{o.exc_name}", {"country": cc, "use_registry": ur}, "BBAN", o.brief())
        # pinned subsets
        pinnable = [c for c in pos if not (c == "national_checksum_digits" and cc in N.COMPUTING)]
        if cc in ("CZ", "SK", "IS"):
            pinnable = [c for c in pinnable]  # no dedicated check field; pins stay valid at IBAN level
        subsets = []
        for r in (1, 2, 3):
            subsets += list(itertools.combinations(sorted(pinnable), r))
        rng.shuffle(subsets)
        singles = [(c,) for c in sorted(pinnable)]
        chosen = singles + [s for s in subsets if len(s) > 1][: max(0, sz["pin_draws"] - len(singles))]
        for j, sub in enumerate(chosen):
            pins = {c: pin_value(rng, cls, *pos[c]) for c in sub}
            for ur in (True, False):
                judge_draw(mon, S, table, cc, f"p{env.seed()}/{cc}/{j}", ur, pins, allbank)
            if j < 6:
                # several seeds under the same pins (one of them may run out of attempts: that is that call's business)
                for extra_seed in ("b", "c", "d"):
                    judge_draw(mon, S, table, cc, f"p{env.seed()}/{cc}/{j}{extra_seed}", True, pins, allbank)
            mon.tally("pinned_draw_sets")
        if cc in N.COMPUTING and "account_code" in pos and "bank_code" in pos:
            # a pinned account under which some listed banks have no computable check digit (the draw then runs out
            # of attempts - legitimately): found with the reference, then many seeds under that one pin
            from vf.ref import lookup as LK  # noqa: PLC0415

            codes = [k_ for c_, k_ in sorted(LK.by_key()) if c_ == cc][:600]
            best, best_n = None, 0
            for _ in range(24):
                acc = pin_value(rng, cls, *pos["account_code"])
                n_bad = 0
                for code in codes:
                    bb = list("0" * spec["bban_length"])
                    bb[pos["bank_code"][0] : pos["bank_code"][0] + min(len(code), pos["bank_code"][1] - pos["bank_code"][0])] = list(code[: pos["bank_code"][1] - pos["bank_code"][0]])
                    bb[pos["account_code"][0] : pos["account_code"][1]] = list(acc)
                    try:
                        if N.expected_digits(cc, "".join(bb))[0] == "none":
                            n_bad += 1
                    except Exception:  # noqa: BLE001
                        break
                if n_bad > best_n:
                    best, best_n = acc, n_bad
            if best is not None:
                mon.tally("pins_under_which_some_banks_have_no_check_digit")
                for k in range(40):
                    judge_draw(mon, S, table, cc, f"ov{env.seed()}/{cc}/{k}", True, {"account_code": best}, allbank)
        if "branch_code" in pos and "bank_code" in pos:
            # a bank code of combined width next to a pinned branch code, both keyword orders: one outcome
            comb = pin_value(rng, cls, *pos["bank_code"]) + pin_value(rng, cls, *pos["branch_code"])
            br = pin_value(rng, cls, *pos["branch_code"])
            for ur in (True, False):
                oa = observe(S.IBAN.random, cc, random=Random(f"kw/{cc}"), use_registry=ur, bank_code=comb, branch_code=br)
                ob = observe(S.IBAN.random, cc, random=Random(f"kw/{cc}"), use_registry=ur, branch_code=br, bank_code=comb)
                mon.ev()
                mon.tally("keyword_order_pairs")
                if oa.ok != ob.ok or (oa.ok and str(oa.value) != str(ob.value)):
                    mon.viol("keyword_order_of_pins_changes_result", {"country": cc, "use_registry": ur, "pins": {"bank_code": comb, "branch_code": br}}, oa.brief(), ob.brief())
                elif oa.ok and oa.value.branch_code != br:
                    mon.viol(f"pinned_component_changed:branch_code:{'registry' if ur else 'noregistry'}", {"country": cc, "pins": {"bank_code": comb, "branch_code": br}, "iban": str(oa.value)}, br, oa.value.branch_code)
        # totality only: odd pins
        for pins in ({"bank_code": ""}, {"account_code": "1"}, {"bank_code": "9" * 40}, {"branch_code": "ab"}):
            if all(c in pos for c in pins):
                o = observe(S.IBAN.random, cc, random=Random("odd"), **pins)
                mon.tally("odd_pins_observed")
                if not o.ok and not judge.is_lib_exc(o.exc):
                    mon.viol(f"escape:random_odd_pin:{o.exc_name}", {"country": cc, "pins": pins}, "library error or IBAN", o.brief())
                elif o.ok and R.expect_iban(str(o.value), table).verdict != R.ACCEPT:
                    mon.viol("random_returned_invalid_iban", {"country": cc, "pins": pins, "iban": str(o.value)}, "valid", "invalid")
        mon.tally("countries")
    # the no-country form
    if shard["countries"][0] == sorted(table)[0]:
        for k in range(sz["seeds"] * 4):
            s = judge_draw(mon, S, table, "", f"nc{env.seed()}/{k}", True, {}, allbank)
            if s:
                mon.tally("no_country_form")
    mon.sample({"country": cc, "seed": f"{env.seed()}/{cc}/0", "draw": str(observe(S.IBAN.random, cc, random=Random(f"{env.seed()}/{cc}/0")).value)})
    # every draw of this process once more, last first: an equally seeded call gives what it gave before
    for cc_, seed_, ur_, pins_, out_ in reversed(JOURNAL):
        o = observe(S.IBAN.random, cc_, random=Random(seed_), use_registry=ur_, **pins_)
        now = str(o.value) if o.ok else "EXC:" + o.exc_name
        mon.ev()
        mon.tally("draws_repeated_at_the_end_of_the_process")
        if now != out_:
            mon.viol("same_seed_different_result_later_in_process", {"country": cc_, "seed": seed_, "use_registry": ur_, "pins": pins_}, out_, now)


def run_digest(shard, mon, S, table):
    n = SIZES[shard["tier"]]["battery"]
    h = hashlib.sha256()
    cnt = 0
    for cc in [""] + sorted(table):
        for k in range(n):
            for ur in (True, False):
                o = observe(S.IBAN.random, cc, random=Random(f"digest/{cc}/{k}"), use_registry=ur)
                h.update((str(o.value) if o.ok else "EXC:" + o.exc_name).encode())
                o = observe(S.BBAN.random, cc, random=Random(f"digestb/{cc}/{k}"), use_registry=ur)
                h.update((str(o.value) if o.ok else "EXC:" + o.exc_name).encode())
                cnt += 2
                mon.ev(2)
    mon.distinct(("digest", shard["hashseed"]))
    import sys  # noqa: PLC0415

    mon.notes["digest"] = {"hashseed": shard["hashseed"], "sha256": h.hexdigest(), "draws": cnt, "hash_randomization": sys.flags.hash_randomization, "hash_of_a": hash("a")}
    mon.tally("digest_processes")


def run_shard(shard, out_base):
    mon = Mon("C13")
    S = judge.lib()
    table = data.countries()
    {"draw": run_draw, "digest": run_digest, "banks": run_banks, "threads": run_threads}[shard["kind"]](shard, mon, S, table)
    return mon.result(out_base)


def finish(m, tier, seed):
    digs = [n["digest"] for n in m["notes"] if "digest" in n]
    vals = {d["sha256"] for d in digs}
    if len(digs) < 2:
        m["inconclusive"].append("fewer than two digest processes")
    elif len(vals) > 1:
        m["violations"].append({"property": "C13", "mechanism": "result_depends_on_process_or_hash_seed", "witness": {"digests": digs}, "expected": "identical digests", "observed": sorted(vals), "_shard": {"kind": "digest", "tier": tier, "_env": {"PYTHONHASHSEED": digs[-1]["hashseed"]}, "hashseed": digs[-1]["hashseed"], "_name": "digest-replay"}})
        m["viol_count"]["result_depends_on_process_or_hash_seed"] = 1
    if len({d["hash_of_a"] for d in digs}) < 2 and len(digs) >= 2:
        m["inconclusive"].append("hash seeds did not take effect")
    if m["tallies"].get("countries", 0) < len(data.countries()):
        m["inconclusive"].append("not every country drawn")
    return {"digests": digs}
