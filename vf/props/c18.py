"""C18 — registry files compose in name order: deep later-wins merge, list concatenation."""
from __future__ import annotations

import copy
import random

from vf import env, gen, judge, scenario
from vf.lib import Mon, observe
from vf.ref import data, lookup
from vf.ref import iban as R
from vf.ref import national as N  # noqa: F401

META = {
    "level": "exploration",
    "rule": (
        "(a) registry.merge_dicts(l, r) on seeded nested dictionaries (depth <= 4, conflicting and disjoint keys, "
        "dict-vs-scalar and dict-vs-list conflicts, empty dicts, None / bool / number scalars) and hypothesis-generated "
        "ones must equal the independent deep later-wins merge of R-DATA and leave both arguments unchanged; "
        "(b) scenarios: scratch copies of the package with extra / overlay / renamed registry files (new country, "
        "partial nested override, scalar<->dict on leaf keys, several files whose names sort differently from creation "
        "order, v2 bank files with and without primary, bank files sorting before / between / after the bundled ones): "
        "registry.get('iban') minus the compiled regex and registry.get('bank') must equal R-DATA's result (list order "
        "included); (c) behaviour follows the effective data: the C01 / C08 / C12 monitors, parametrised by the scratch "
        "data, run against the library loaded from the scratch package; distinct = distinct merge pairs resp. "
        "(scenario, judged case)"
    ),
    "assumptions": [
        "file-name order = plain string order of the file names (what sorted() over the directory gives)",
        "a file whose stem ends in 'v2' is a compact document; scenarios only use the documented '*.v2.json' convention",
        "overlays stay format-conforming at the levels the library interprets (a country entry is a dict with consistent structure/length keys)",
    ],
    "min_distinct": {"quick": 25000, "thorough": 800000},
}
SIZES = {"quick": dict(merges=40000, hyp=600, scenarios=32, mshards=6), "thorough": dict(merges=1500000, hyp=20000, scenarios=600, mshards=14)}

SCALARS = [None, True, False, 0, 1, 1.0, 0.0, -7, 3.5, "", "x", "DE", [1, 2], [1.0, 2], [True, 2], [], [{"a": 1}], [{"a": True}], "positions", 16, 16.0]
KEYS = ["a", "b", "c", "positions", "bank_code", "DE", "FR", "x", "in_sepa_zone", ""]


def rand_tree(rng, depth):
    d = {}
    for _ in range(rng.randint(0, 4)):
        k = rng.choice(KEYS)
        if depth > 0 and rng.random() < 0.45:
            d[k] = rand_tree(rng, depth - 1)
        else:
            d[k] = copy.deepcopy(rng.choice(SCALARS))
    return d


def rand_pair(rng):
    left = rand_tree(rng, rng.randint(0, 4))
    if rng.random() < 0.5:
        # derive the right side from the left one so that conflicts at depth are common
        right = copy.deepcopy(left)

        def mutate(node, depth):
            for k in list(node):
                r = rng.random()
                if isinstance(node[k], dict) and r < 0.6:
                    mutate(node[k], depth + 1)
                elif r < 0.3:
                    del node[k]
                elif r < 0.6:
                    node[k] = rand_tree(rng, 2) if rng.random() < 0.4 else copy.deepcopy(rng.choice(SCALARS))
            if rng.random() < 0.5:
                node[rng.choice(KEYS)] = rand_tree(rng, 1) if rng.random() < 0.5 else copy.deepcopy(rng.choice(SCALARS))

        mutate(right, 0)
    else:
        right = rand_tree(rng, rng.randint(0, 4))
    return left, right


# ---------------------------------------------------------------- scenarios


def new_country(cc, rng, sepa=None):
    segs = [(rng.randint(2, 5), "n"), (rng.randint(2, 6), rng.choice("nac")), (rng.randint(4, 10), rng.choice("nc"))]
    spec = "".join(f"{n}!{k}" for n, k in segs)
    L = sum(n for n, _ in segs)
    a, b = segs[0][0], segs[0][0] + segs[1][0]
    return {
        "country": cc, "in_sepa_zone": bool(rng.randrange(2)) if sepa is None else sepa, "bban_spec": spec, "bban_length": L,
        "iban_spec": f"{cc}2!n{spec}", "iban_length": L + 4,
        "positions": {"bank_code": [0, a], "branch_code": [a, b], "account_code": [b, L]},
    }


def bank_entry(cc, code, bic, name, primary=None):
    e = {"country_code": cc, "bank_code": code, "bic": bic, "name": name, "short_name": name[:8]}
    if primary is not None:
        e["primary"] = primary
    return e


def scenario_docs(k: int, rng: random.Random):
    """(overlays, affected countries, description)."""
    table = data.countries()  # the unmodified tree (plan() runs in the orchestrator)
    kinds = ["new_country", "partial_positions", "scalar_dict", "name_order", "v2_bank", "bank_between", "one_key", "lookup_components", "sandwich", "random_mix"]
    kind = kinds[k % len(kinds)] if k < 2 * len(kinds) else "random_mix"
    ov, aff = {}, []
    if kind == "new_country":
        cc = rng.choice(["QQ", "XA", "ZZ", "QM"])
        ov[f"iban_registry/zz_new_{k}.json"] = {cc: new_country(cc, rng)}
        spec = ov[f"iban_registry/zz_new_{k}.json"][cc]
        code = "".join(rng.choice(R.DIGITS) for _ in range(spec["positions"]["bank_code"][1]))
        ov["bank_registry/manual_zz.json"] = [bank_entry(cc, code, "TESTDEFFXXX", "Scenario Bank", True), bank_entry(cc, code, "TESTDEFF", "Scenario Bank 2", False)]
        aff = [cc]
    elif kind == "partial_positions":
        cc = rng.choice(["DE", "NL", "AT", "CH"])
        w = table[cc]["positions"]["bank_code"][1]
        cut = rng.randint(1, w - 1)
        ov["iban_registry/overwrite_zz.json"] = {cc: {"positions": {"bank_code": [0, cut], "branch_code": [cut, w]}}}
        aff = [cc]
    elif kind == "scalar_dict":
        c1, c2 = rng.sample(sorted(table), 2)
        ov["iban_registry/p_scalar.json"] = {c1: {"in_sepa_zone": {"since": 2014, "nested": {"a": 1}}}, c2: {"positions": {"account_code": table[c2].get("positions", {}).get("account_code", [0, 1])}, "default_currency_code": {"x": "y"}}}
        ov["iban_registry/q_back.json"] = {c1: {"in_sepa_zone": {"nested": 5}}, c2: {"default_currency_code": "ABC"}}
        aff = [c1, c2]
    elif kind == "name_order":
        cc = "QQ"
        names = ["10_x.json", "9_x.json", "A_x.json", "a_x.json", "B_x.json", "_x.json", "zz.json", "z.json", "generated_.json", "overwrite_.json", "overwrite.v1.json",
                 "zz-site.json", "zz site.json", "zz+1.json", "overwrite-local.json", "zz(1).json", ".site.json", ".zz.json", "~x.json"]
        rng.shuffle(names)
        base = new_country(cc, rng, sepa=False)
        for i, nme in enumerate(names):
            doc = {cc: copy.deepcopy(base) if i == 0 or rng.random() < 0.3 else {}}
            doc[cc]["marker"] = nme
            doc[cc].setdefault("positions", {})
            doc[cc]["nested"] = {"by": nme, nme: i}
            # every file must keep the entry loadable on its own merge prefix: always carry the base keys
            for kk in ("bban_spec", "bban_length", "iban_length", "iban_spec", "country", "in_sepa_zone"):
                doc[cc].setdefault(kk, base[kk])
            if not doc[cc]["positions"]:
                doc[cc]["positions"] = base["positions"]
            doc["DE"] = {"in_sepa_zone_marker": nme}
            # every pair of files fights over one key: the final value reveals their relative order
            for j, other in enumerate(names):
                if j != i:
                    doc[cc]["nested"][f"pair_{min(i, j)}_{max(i, j)}"] = nme
                    doc["DE"][f"pair_{min(i, j)}_{max(i, j)}"] = nme
            ov[f"iban_registry/{nme}"] = doc
        aff = [cc, "DE"]
    elif kind == "v2_bank":
        cc = rng.choice(["DK", "NL", "AT"])
        w = table[cc]["positions"]["bank_code"][1] - table[cc]["positions"]["bank_code"][0]
        cls = R.position_classes(table[cc]["bban_spec"])[: w]
        codes = ["".join(rng.choice(c) for c in cls) for _ in range(6)]
        ov["bank_registry/manual_zz.v2.json"] = {"expand_from": "bank_codes", "expand_into": "bank_code", "entries": [
            {"country_code": cc, "bic": "AAAADEFFXXX", "name": "V2 one", "short_name": "V2-1", "bank_codes": codes[:3]},
            {"country_code": cc, "bic": "BBBBDEFF", "name": "V2 two", "short_name": "V2-2", "primary": True, "bank_codes": codes[2:5]},
            {"country_code": cc, "bic": "", "name": "V2 three", "short_name": "V2-3", "bank_codes": [codes[5], codes[0]]},
            # listed values are codes, whatever they look like: one entry per listed value, nothing else
            {"country_code": cc, "bic": "EEEEDEFF", "name": "V2 four", "short_name": "V2-4", "bank_codes": ["062-000", "0040-0043", "0043-0040", "10..12", "1,2", "7*", " 12 ", "", "A-C"]},
        ]}
        ov["bank_registry/a_first.v2.json"] = {"expand_from": "codes", "expand_into": "bank_code", "entries": [
            {"country_code": cc, "bic": "CCCCDEFF123", "name": "V2 first", "short_name": "V2-0", "primary": False, "codes": [codes[2]]}]}
        aff = [cc]
    elif kind == "bank_between":
        keys = sorted(lookup.by_key())
        picks = rng.sample(keys, 4)
        ov["bank_registry/a_before_all.json"] = [bank_entry(c, b, "AAAADEFF", "Before all", False) for c, b in picks[:2]]
        ov["bank_registry/generated_dz.json"] = [bank_entry(c, b, "BBBBDEFFXXX", "Between", True) for c, b in picks[1:3]]
        ov["bank_registry/zz_after_all.json"] = [bank_entry(c, b, "CCCCDEFF", "After all", True) for c, b in picks[2:]]
        ov["bank_registry/Z_upper.json"] = [bank_entry(c, b, "DDDDDEFF", "Upper-case name", False) for c, b in picks[:1]]
        ov["bank_registry/.house.json"] = [bank_entry(c, b, "HHHHDEFF", "Dot file", True) for c, b in picks[:3]]
        ov["bank_registry/a_before_all-extra.json"] = [bank_entry(c, b, "FFFFDEFF", "Hyphenated sibling", True) for c, b in picks[:2]]
        ov["bank_registry/zz_after_all-1.json"] = [bank_entry(c, b, "GGGGDEFF", "Hyphenated sibling after", False) for c, b in picks[2:]]
        ov["bank_registry/_underscore.json"] = [bank_entry(c, b, "EEEEDEFF", "Underscore name", False) for c, b in picks[:1]]
        aff = sorted({c for c, _ in picks})
    elif kind == "sandwich":
        # dict (bundled) -> non-dict (first overlay) -> dict (second overlay) on the same path, at field level and
        # at country level: the last dict REPLACES, it is not merged into the bundled one
        # (countries without a national algorithm: removing fields of the others would make the data inconsistent)
        c1 = rng.choice([c for c in ("GB", "BR", "BG", "GR", "CY", "MT") if c in table and "branch_code" in table[c].get("positions", {})])
        c2 = rng.choice([c for c in ("AD", "LU", "CH", "AT", "NL", "LV") if c in table and c != c1])
        p1 = table[c1]["positions"]
        keep = {k: p1[k] for k in ("bank_code", "account_code") if k in p1}
        whole = copy.deepcopy(table[c2])
        whole["positions"] = {"bank_code": whole["positions"]["bank_code"], "account_code": whole["positions"]["account_code"]}
        whole.pop("bic_lookup_components", None)
        ov["iban_registry/site_1_reset.json"] = {c1: {"positions": None}, c2: None}
        ov["iban_registry/site_2_define.json"] = {c1: {"positions": keep}, c2: whole}
        if rng.random() < 0.5:
            ov["iban_registry/site_3_more.json"] = {c1: {"in_sepa_zone": {"x": 1}}, c2: {"marker": [1, 2]}}
        aff = [c1, c2]
    elif kind == "lookup_components":
        # an overlay that names the bank key of a country as an ordered list of components that are not adjacent
        # / not in BBAN order / more than the shipped data ever use, and bank files keyed the way it says
        cands = [c_ for c_ in ("GB", "IE", "BG", "FR", "IT", "ES", "GR", "CY", "HU") if c_ in table and "branch_code" in (table[c_].get("positions") or {}) and not any(b_.get("country_code") == c_ for b_ in data.banks()[:0])]
        cc = rng.choice(cands)
        pos_ = table[cc]["positions"]
        order = rng.choice([["branch_code", "bank_code"], ["bank_code", "account_code"], ["account_code", "bank_code"], ["bank_code", "branch_code", "bank_code"]])
        order = [c_ for c_ in order if c_ in pos_ and pos_[c_][1] > pos_[c_][0]]
        ov["iban_registry/zz_lookup.json"] = {cc: {"bic_lookup_components": order}}
        cls_ = R.position_classes(table[cc]["bban_spec"])
        ents = []
        for j in range(3):
            vals_ = {c_: "".join(rng.choice(cls_[i]) for i in range(pos_[c_][0], pos_[c_][1])) for c_ in dict.fromkeys(order)}
            key = "".join(vals_[c_] for c_ in order)
            ents.append(bank_entry(cc, key, f"ZZ{j}{cc}{cc}XX"[:4] + cc + "2L" + ("XXX" if j else ""), f"Keyed bank {j}", j == 0))
        ov["bank_registry/manual_zz_lookup.json"] = ents
        aff = [cc]
    elif kind == "one_key":
        cc = rng.choice(sorted(table))
        ov["iban_registry/zz_one.json"] = {cc: {"in_sepa_zone": not table[cc].get("in_sepa_zone", False)}}
        aff = [cc]
    else:
        for j in range(rng.randint(1, 3)):
            sub_ov, sub_aff, _ = scenario_docs(rng.randrange(len(kinds) - 2), rng)
            for p, d in sub_ov.items():
                p2 = p.replace(".json", f"_{j}.json") if not p.endswith(".v2.json") else p.replace(".v2.json", f"_{j}.v2.json")
                ov[p2] = d
            aff += sub_aff
    return ov, sorted(set(aff)), kind


def plan(tier, seed):
    sz = SIZES[tier]
    sh = [{"kind": "merge", "part": i, "parts": sz["mshards"], "tier": tier, "_name": f"merge-{i}"} for i in range(sz["mshards"])]
    sh.append({"kind": "scenario", "tier": tier, "scenario": "unmodified", "affected": ["DE", "FR"], "_name": "scn-tree"})
    for k in range(sz["scenarios"]):
        rng = env.rng("C18scn", k)
        ov, aff, kind = scenario_docs(k, rng)
        root = scenario.make_scratch(ov)
        sh.append({"kind": "scenario", "tier": tier, "scenario": f"{k}:{kind}", "files": sorted(ov), "affected": aff,
                   "_env": {"SCHWIFTY_REPO": root}, "_scratch": root, "_name": f"scn-{k}"})
    for which, rel, content in (("bank", "bank_registry/house.json", [bank_entry("DE", "99999999", "HOUSDEFFXXX", "House Bank", True)]),
                                ("iban", "iban_registry/local.json", {"DE": {"in_sepa_zone": True}})):
        root = scenario.make_scratch({rel: content})
        sh.append({"kind": "retry", "tier": tier, "which": which, "broken_file": rel, "content": content, "_prelude": False,
                   "_env": {"SCHWIFTY_REPO": root}, "_scratch": root, "_name": f"retry-{which}"})
    return sh


def prepare_replay(shard):
    if shard.get("kind") == "retry":
        root = scenario.make_scratch({shard["broken_file"]: shard["content"]})
        shard["_env"] = {"SCHWIFTY_REPO": root}
        shard["_scratch"] = root
        return shard
    if shard.get("kind") != "scenario" or ":" not in str(shard.get("scenario")):
        return shard
    k = int(str(shard["scenario"]).split(":")[0])
    ov, aff, kind = scenario_docs(k, env.rng("C18scn", k))
    root = scenario.make_scratch(ov)
    shard["_env"] = {"SCHWIFTY_REPO": root}
    shard["_scratch"] = root
    return shard


def strict(x):
    """Canonical JSON text: 1, 1.0 and true are different values (Python's == does not tell them apart)."""
    import json  # noqa: PLC0415

    return json.dumps(x, sort_keys=True, default=repr)


def run_merge(shard, mon):
    from schwifty import registry  # noqa: PLC0415

    sz = SIZES[shard["tier"]]
    rng = env.rng("C18", "merge", shard["part"])

    def one(left, right, tag):
        l0, r0 = copy.deepcopy(left), copy.deepcopy(right)
        want = data.deep_merge(l0, r0)
        o = observe(registry.merge_dicts, left, right)
        mon.ev()
        mon.distinct(repr((left, right)))
        w = {"left": l0, "right": r0, "family": tag}
        if not o.ok:
            mon.viol(f"merge_raised:{o.exc_name}", w, want, o.brief())
            return
        if strict(o.value) != strict(want):
            mon.viol("merge_result_wrong", w, want, o.value)
        if left != l0 or right != r0:
            mon.viol("merge_modified_its_arguments", w, [l0, r0], [left, right])
        if want:
            mon.tally("nonempty_results")

    for _ in range(sz["merges"] // shard["parts"]):
        one(*rand_pair(rng), "seeded")
    for l, r in [({}, {}), ({"a": 1}, {}), ({}, {"a": 1}), ({"a": {"b": 1}}, {"a": 2}), ({"a": 2}, {"a": {"b": 1}}), ({"a": {"b": {"c": 1, "d": 2}}}, {"a": {"b": {"c": 3}}}),
                 ({"a": [1, 2]}, {"a": [3]}), ({"a": {"b": 1}}, {"a": {}}), ({"a": {}}, {"a": {"b": 1}}), ({"a": None}, {"a": {"x": 1}}), ({"a": {"x": 1}}, {"a": None})]:
        one(l, r, "literal")
    try:
        from hypothesis import HealthCheck, given, seed as hseed, settings  # noqa: PLC0415
        from hypothesis import strategies as st  # noqa: PLC0415

        leaf = st.one_of(st.none(), st.booleans(), st.integers(-3, 3), st.text(max_size=2), st.lists(st.integers(0, 2), max_size=2))
        tree = st.recursive(leaf, lambda ch: st.dictionaries(st.sampled_from(KEYS[:6]), ch, max_size=4), max_leaves=12)
        dicts = st.dictionaries(st.sampled_from(KEYS[:6]), tree, max_size=4)

        @hseed(env.seed() * 1000 + shard["part"])
        @settings(max_examples=sz["hyp"] // shard["parts"] + 1, database=None, deadline=None, suppress_health_check=list(HealthCheck))
        @given(dicts, dicts)
        def hyp(l, r):
            one(l, r, "hypothesis")

        if not shard.get("_threads"):
            hyp()
    except ImportError:
        mon.notes["hypothesis"] = "not available"
    mon.sample({"left": {"a": {"b": 1}, "c": 2}, "right": {"a": {"b": {"x": 1}}, "d": [1]}})


def run_retry(shard, mon):
    """A registry file is unreadable at the first import attempt, gets repaired, the import is retried in the
    same process: the effective data must then be the composition of all (now valid) files."""
    import importlib  # noqa: PLC0415
    import json as js  # noqa: PLC0415
    import os  # noqa: PLC0415
    import sys  # noqa: PLC0415

    pkg = env.PKG
    mon.ev()
    mon.distinct(("retry", shard["which"]))
    path = os.path.join(pkg, shard["broken_file"])
    good = shard["content"]
    with open(path, "w", encoding="utf-8") as fp:
        fp.write(js.dumps(good)[: len(js.dumps(good)) // 2])  # truncated JSON
    if env.REPO in sys.path:
        sys.path.remove(env.REPO)
    sys.path.insert(0, env.REPO)
    failures = 0
    for attempt in range(2):
        stage = "import"
        try:
            importlib.import_module("schwifty")
            # a tree may read its registries at first use instead of at import time: the attempt includes a
            # first use of both registries and of the derived look-up tables
            stage = "first use"
            reg = importlib.import_module("schwifty.registry")
            reg.get("iban")
            reg.get("bank")
            sw = sys.modules["schwifty"]
            sw.IBAN("DE89370400440532013000").bic
            sw.BIC.candidates_from_bank_code("DE", "37040044")
            break
        except Exception:  # noqa: BLE001
            failures += 1
            mon.tally(f"retry_failed_at_{stage.replace(' ', '_')}")
            if stage == "import":
                for name in [n for n in sys.modules if n == "schwifty" or n.startswith("schwifty.")]:
                    if name not in ("schwifty.registry", "schwifty.exceptions", "schwifty.domain", "schwifty.common"):
                        # what a retrying application sees: modules that were imported successfully stay imported
                        del sys.modules[name]
            with open(path, "w", encoding="utf-8") as fp:
                js.dump(good, fp)
    mon.tally("import_failures_before_success", failures)
    if failures != 1:
        mon.inconclusive.append(f"retry scenario did not fail exactly once ({failures})")
        return
    S = judge.lib()
    from schwifty import registry  # noqa: PLC0415

    data._cache.clear()
    table, banks = data.countries(), data.banks()
    eff = {k: {kk: vv for kk, vv in v.items() if kk != "regex"} for k, v in registry.get("iban").items()}
    w = {"scenario": "retry-import:" + shard["which"], "broken_file": shard["broken_file"]}
    if strict(eff) != strict(table):
        diff = sorted(k for k in set(eff) | set(table) if eff.get(k) != table.get(k))[:6]
        mon.viol("effective_country_table_differs_after_retried_import", {**w, "countries": diff}, "composition of all files", f"{len(eff)} countries, differing: {diff}")
    if strict(registry.get("bank")) != strict(banks):
        mon.viol("effective_bank_list_differs_after_retried_import", w, len(banks), len(registry.get("bank")))
    for text in ("DE89370400440532013000", "AO06004400006729503010102", "AL47212110090000000235698741"):
        judge.judge_iban_accept(mon, text, table, "retry")
    mon.tally("scenarios_loaded")


def run_scenario(shard, mon, S):
    from schwifty import registry  # noqa: PLC0415
    from vf.props import c08, c12  # noqa: PLC0415

    scn = shard["scenario"]
    table = data.countries()  # R-DATA over the scratch package (env.PKG follows SCHWIFTY_REPO)
    banks = data.banks()
    mon.ev()
    mon.distinct(("scenario", scn))
    w = {"scenario": scn, "files": shard.get("files")}
    eff = {k: {kk: vv for kk, vv in v.items() if kk != "regex"} for k, v in registry.get("iban").items()}
    if strict(eff) != strict(table):
        diff = sorted(k for k in set(eff) | set(table) if eff.get(k) != table.get(k))[:6]
        ex = diff[0] if diff else None
        mon.viol("effective_country_table_differs", {**w, "countries": diff}, table.get(ex), eff.get(ex))
    lib_banks = registry.get("bank")
    if strict(lib_banks) != strict(banks):
        if sorted(map(repr, lib_banks)) == sorted(map(repr, banks)):
            mon.viol("effective_bank_list_order_differs", w, "file-name order", "same entries, other order")
        else:
            i = next((i for i, (a, b) in enumerate(zip(lib_banks, banks)) if a != b), min(len(lib_banks), len(banks)))
            mon.viol("effective_bank_list_differs", {**w, "index": i}, banks[i] if i < len(banks) else None, lib_banks[i] if i < len(lib_banks) else None)
    mon.tally("scenarios_loaded")
    # (c) behaviour follows the effective data
    rng = env.rng("C18", scn)
    cs = [c for c in shard.get("affected", []) if c in table] + rng.sample(sorted(table), 3)
    for cc in cs:
        spec = table[cc]
        for text in gen.valid_ibans(cc, spec, rng, 4):
            judge.judge_iban_accept(mon, text, table, f"scn:{scn}")
            judge.judge_iban_accept(mon, text[:-1], table, f"scn:{scn}")
            judge.judge_iban_accept(mon, gen.refix(gen.edit_fuzz(text, rng, 1)), table, f"scn:{scn}")
            o = observe(S.IBAN, text)
            if o.ok:
                for k, v in spec.items():
                    if k == "in_sepa_zone" and o.value.in_sepa_zone != v:
                        mon.viol("accessor_does_not_follow_effective_data:in_sepa_zone", {**w, "iban": text}, v, o.value.in_sepa_zone)
        pos = data.positions(spec)
        if pos:
            wd = {k: (pos[k][1] - pos[k][0] if k in pos else 0) for k in ("bank_code", "branch_code", "account_code")}
            cls = {k: c08.field_classes(spec, pos, k) for k in wd}
            for kind in ("exact", "short", "plus1", "combined"):
                bank = c08.comp_value(rng, cls["bank_code"] + (cls["branch_code"] if kind == "combined" else []), wd["bank_code"], wd["branch_code"], kind)
                acct = c08.comp_value(rng, cls["account_code"], wd["account_code"], 0, "exact")
                c08.judge_generate(mon, S, cc, bank, acct, "", table)
    keys = sorted(k for k in lookup.by_key(banks) if k[0] in cs)
    rng.shuffle(keys)
    sub = {"kind": "keys", "part": 0, "parts": 1, "tier": shard["tier"], "config": scn}
    # run the C12 key monitor on (a sample of) the keys of the affected countries; the index stays complete
    c12.run_keys(sub, mon, S, only_keys=keys[:150])
    mon.sample({"scenario": scn, "files": shard.get("files"), "affected": shard.get("affected")})


def run_shard(shard, out_base):
    mon = Mon("C18")
    if shard["kind"] == "retry":
        run_retry(shard, mon)
        return mon.result(out_base)
    if shard["kind"] == "merge":
        judge.lib()
        run_merge(shard, mon)
        mon.tally("package_imported_without_overlay")
        return mon.result(out_base)
    try:
        S = judge.lib()
    except Exception as e:  # noqa: BLE001
        # the scratch package = the tree's package + overlay files that are valid registry documents: it must
        # load (finish() keeps this verdict only when the package without overlays did load in this run)
        import traceback  # noqa: PLC0415

        mon.ev()
        mon.distinct(("scenario-import", shard.get("scenario")))
        mon.viol("package_with_valid_overlay_files_cannot_be_imported", {"scenario": shard.get("scenario"), "files": shard.get("files")}, "imports; effective tables = composition of the files",
                 "".join(traceback.format_exception(type(e), e, e.__traceback__))[-500:])
        return mon.result(out_base)
    run_scenario(shard, mon, S)
    return mon.result(out_base)


def finish(m, tier, seed):
    want = SIZES[tier]["scenarios"] + 3
    if not m["tallies"].get("package_imported_without_overlay"):
        # nothing imported the package at all: an import failure under an overlay says nothing
        mech = "package_with_valid_overlay_files_cannot_be_imported"
        if m["viol_count"].pop(mech, None):
            m["violations"] = [v for v in m["violations"] if v.get("mechanism") != mech]
            m["inconclusive"].append("the package could not be imported with or without overlay files")
    if m["tallies"].get("scenarios_loaded", 0) < want and not m["viol_count"]:
        m["inconclusive"].append(f"only {m['tallies'].get('scenarios_loaded', 0)} of {want} scenarios loaded")
    return {"scenarios": want}
