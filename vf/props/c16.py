"""C16 — IBAN, BIC and BBAN are string values: equality, hashing, order and copies agree."""
from __future__ import annotations

import copy
import pickle

from vf import env, gen, judge
from vf.lib import Mon, esc, observe
from vf.props.c04 import rand_bic
from vf.ref import data
from vf.ref import iban as R

META = {
    "level": "exploration",
    "rule": (
        "a pool of valid and allow_invalid IBANs / BICs, BBANs of several countries (incl. equal values under "
        "different countries), equal-compact plain strings, near-misses and the empty string: every ordered pair x "
        "{==, !=, <, <=, >, >=} must equal the operator on the compact strings; hash(a) == hash(str(a)); dict look-ups "
        "in both directions; sorted(pool) consistent with sorting the strings; every object x {copy, deepcopy, pickle "
        "protocols 0..5} must give an equal object of the same class with the same country, components and (IBAN) "
        "bban; distinct = distinct ordered pairs resp. (object, copy method) judged"
    ),
    "assumptions": ["only comparisons among the three classes and str are judged"],
    "min_distinct": {"quick": 20000, "thorough": 500000},
}
SIZES = {"quick": dict(pool=150, shards=8), "thorough": dict(pool=1100, shards=16)}
OPS = [("==", lambda a, b: a == b), ("!=", lambda a, b: a != b), ("<", lambda a, b: a < b), ("<=", lambda a, b: a <= b), (">", lambda a, b: a > b), (">=", lambda a, b: a >= b)]
COMPONENTS = data.COMPONENTS


def plan(tier, seed):
    n = SIZES[tier]["shards"]
    return [{"part": i, "parts": n, "tier": tier, "_name": f"part-{i}"} for i in range(n)] + [{"kind": "xproc", "tier": tier, "_env": {"PYTHONHASHSEED": "12"}, "_name": "xproc"}]


_USER_LOCK = __import__("threading").Lock()


def ensure_user_classes(S):
    # under the generic threaded copy several threads come here at once: one definition per process
    with _USER_LOCK:
        for cls_name, base in (("UserIBAN", S.IBAN), ("UserBIC", S.BIC), ("UserBBAN", S.BBAN)):
            if cls_name not in globals():
                globals()[cls_name] = type(cls_name, (base,), {"__module__": __name__, "label": cls_name})


def build_pool(S, rng, n):
    table = data.countries()
    cs = sorted(table)
    pool = []  # (label, object)
    table = data.countries()
    for i in range(n // 3):
        cc = rng.choice(cs)
        t = R.make_iban(cc, gen.random_bban(table[cc], rng))
        pool.append(("IBAN", S.IBAN(t)))
        if i % 3 == 0:
            pool.append(("str", t))
        if i % 7 == 0:
            # plain strings that are NOT compact: formatted, lower-case, padded - they must compare as strings
            pool.append(("str", " ".join(t[j : j + 4] for j in range(0, len(t), 4))))
            pool.append(("str", t.lower()))
            pool.append(("str", " " + t))
        if i % 4 == 0:
            pool.append(("BBAN", S.BBAN(cc, t[4:])))
            other = rng.choice(cs)
            pool.append(("BBAN", S.BBAN(other, t[4:])))
            pool.append(("IBAN", S.IBAN(t.lower())))
        if i % 5 == 0:
            bad = t[:-1] + ("0" if t[-1] != "0" else "1")
            pool.append(("IBAN_unvalidated", S.IBAN(bad, allow_invalid=True)))
            pool.append(("str", bad))
        if i % 2 == 0:
            b = rand_bic(rng)
            pool.append(("BIC", S.BIC(b)))
            if i % 4 == 0:
                # near-misses that a "smart" equality might identify: 8-character form vs the same with XXX
                b8 = b[:8]
                pool.append(("BIC", S.BIC(b8)))
                pool.append(("BIC", S.BIC(b8 + "XXX")))
                pool.append(("str", b8 + "XXX"))
            if i % 6 == 0:
                pool.append(("str", b))
                pool.append(("str", b.lower()))
                pool.append(("str", " ".join([b[0:4], b[4:6], b[6:8]] + ([b[8:]] if len(b) == 11 else []))))
                pool.append(("BIC_unvalidated", S.BIC(b[:7], allow_invalid=True)))
    for t in ["", "XX", "XX00", "DE", "de89", "ZZ99ZZZZ", "12345678", "GENODEM1GLS", "é", "DE89 3704"]:
        pool.append(("IBAN_unvalidated", S.IBAN(t, allow_invalid=True)))
        pool.append(("BIC_unvalidated", S.BIC(t, allow_invalid=True)))
        pool.append(("BBAN", S.BBAN("DE", t)))
        pool.append(("str", R.normalise(t)))
    # unvalidated objects whose text carries compatibility / spacing characters: copies must not re-normalise
    base = "DE89370400440532013000"
    for j, ch in enumerate(gen.compat_chars(90)):
        if j % 3 == 0:
            pool.append(("IBAN_unvalidated", S.IBAN(base[:-1] + ch, allow_invalid=True)))
        elif j % 3 == 1:
            pool.append(("BIC_unvalidated", S.BIC("GENODEM1GL" + ch, allow_invalid=True)))
        else:
            pool.append(("BBAN", S.BBAN("DE", ch + base[4:])))
    # instances of user subclasses (importable from this module, so they can be pickled)
    ensure_user_classes(S)
    t0 = R.make_iban("DE", gen.random_bban(table["DE"], rng))
    u1 = globals()["UserIBAN"](t0)
    u1.note = "customer 4711"
    u2 = globals()["UserBIC"]("GENODEM1GLS")
    u3 = globals()["UserBBAN"]("DE", t0[4:])
    u3.note = "x"
    pool += [("IBAN_subclass", u1), ("IBAN", S.IBAN(t0)), ("BIC_subclass", u2), ("BIC", S.BIC("GENODEM1GLS")), ("BBAN_subclass", u3), ("BBAN", S.BBAN("DE", t0[4:]))]
    # texts as the operating system hands them over (surrogateescape-decoded bytes: lone surrogates), astral
    # characters, NUL - as plain strings and as unvalidated objects
    for odd in ("DE8937040044053201300\udce9", "\udc80", "DEUTDEFF\udcff", "DE89\U0001F600", "DE89\x00", "\ud800DE89"):
        pool.append(("str", odd))
        pool.append(("IBAN_unvalidated", S.IBAN(odd, allow_invalid=True)))
        pool.append(("BIC_unvalidated", S.BIC(odd, allow_invalid=True)))
        pool.append(("BBAN", S.BBAN("DE", odd)))
    # unvalidated objects far longer than anything valid (a pasted line), and empty ones
    for n_ in (65, 129, 300, 5000):
        junk = "".join(rng.choice("ABCDEFGH0123456789 -") for _ in range(n_))
        pool.append(("IBAN", S.IBAN(junk, allow_invalid=True)))
        pool.append(("BIC", S.BIC(junk, allow_invalid=True)))
        pool.append(("BBAN", S.BBAN("DE", junk)))
    pool.append(("IBAN", S.IBAN("", allow_invalid=True)))
    pool.append(("BIC", S.BIC("", allow_invalid=True)))
    pool.append(("BBAN", S.BBAN("", "")))
    pool.append(("BBAN", S.BBAN("XX", "123")))
    return pool


_STR_NAMES = set(dir(str))


def state(o):
    d = {"class": type(o).__name__, "str": str(o), "extra": {k: v for k, v in getattr(o, "__dict__", {}).items() if k in ("note", "label")}}
    for attr in ("country_code",) + tuple(COMPONENTS) + ("checksum_digits", "location_code"):
        try:
            d[attr] = getattr(o, attr)
        except AttributeError:
            pass
        except Exception as e:  # noqa: BLE001
            d[attr] = "EXC:" + type(e).__name__
    b = getattr(o, "bban", None)
    if b is not None and type(o).__name__ == "IBAN":
        d["bban"] = (type(b).__name__, str(b), getattr(b, "country_code", None))
    return d


WRITER = r"""
import pickle, sys
from vf import env, judge
from vf.props import c16
S = judge.lib()
pool = c16.build_pool(S, env.rng("C16", "pool"), 60)
objs = [o for l, o in pool if l != "str"]
for o in objs:
    hash(o)                      # objects that have been used as keys before being pickled
d = {o: i for i, o in enumerate(objs)}
with open(sys.argv[1], "wb") as fp:
    pickle.dump({"objs": objs, "dict": d, "strs": [str(o) for o in objs], "states": [c16.state(o) for o in objs]}, fp, protocol=int(sys.argv[2]))
"""


def run_xproc(shard, mon, S):
    """Objects hashed and pickled in a process with one string-hash seed, unpickled here under another one."""
    import os  # noqa: PLC0415
    import subprocess  # noqa: PLC0415
    import tempfile  # noqa: PLC0415

    ensure_user_classes(S)
    for proto in (2, pickle.HIGHEST_PROTOCOL):
        fd, path = tempfile.mkstemp(prefix="vf-c16-", suffix=".pkl")
        os.close(fd)
        try:
            e = dict(os.environ, PYTHONHASHSEED="4711", PYTHONPATH=env.VERIF, PYTHONDONTWRITEBYTECODE="1")
            p = subprocess.run([env.PY, "-c", WRITER, path, str(proto)], env=e, capture_output=True, text=True, timeout=300)
            if p.returncode != 0:
                mon.viol("pickle_raised:writer_process", {"protocol": proto}, "pickle written", p.stderr[-300:])
                continue
            with open(path, "rb") as fp:
                o = observe(pickle.load, fp)
        finally:
            os.unlink(path)
        if not o.ok:
            mon.viol("pickle_raised:reader_process", {"protocol": proto}, "objects", o.brief())
            continue
        doc = o.value
        for obj, s, st in zip(doc["objs"], doc["strs"], doc["states"]):
            mon.ev()
            mon.distinct(("xproc", proto, s, type(obj).__name__))
            w = {"object": [type(obj).__name__, esc(s)], "protocol": proto, "writer_hashseed": 4711, "reader_hashseed": os.environ.get("PYTHONHASHSEED")}
            if hash(obj) != hash(str(obj)) or str(obj) != s:
                mon.viol("hash_differs_from_str:after_cross_process_pickle", w, hash(str(obj)), hash(obj))
            if not (obj in {s} and s in {obj}):
                mon.viol("dict_key_not_interchangeable:after_cross_process_pickle", w, "found", "not found")
            if state(obj) != st:
                mon.viol("pickle_not_equal:cross_process", w, st, state(obj))
        found = sum(1 for s in doc["strs"] if s in doc["dict"])
        if found != len(doc["strs"]):
            mon.viol("unpickled_dict_cannot_be_queried_by_string", {"protocol": proto}, len(doc["strs"]), found)
        mon.tally("cross_process_pickles")
    mon.sample({"cross_process": "writer PYTHONHASHSEED=4711, reader " + str(os.environ.get("PYTHONHASHSEED"))})


def run_shard(shard, out_base):
    mon = Mon("C16")
    S = judge.lib()
    if shard.get("kind") == "xproc":
        run_xproc(shard, mon, S)
        return mon.result(out_base)
    rng = env.rng("C16", "pool")  # same pool in every shard; pairs are partitioned
    pool = build_pool(S, rng, SIZES[shard["tier"]]["pool"])
    part, parts = shard["part"], shard["parts"]
    mon.notes["pool_size"] = len(pool)
    if part == 0:
        # what a class was asked to construct is an object of exactly that class, whatever else is alive in the
        # process (instances of user subclasses with the same value are)
        want_cls = {"IBAN": S.IBAN, "BIC": S.BIC, "BBAN": S.BBAN, "IBAN_unvalidated": S.IBAN, "BIC_unvalidated": S.BIC}
        for la, a in pool:
            if la in want_cls and type(a) is not want_cls[la]:
                mon.viol(f"constructor_returned_object_of_another_class:{la}", {"object": [la, esc(str(a))]}, want_cls[la].__name__, type(a).__name__)
        alive = [o for la, o in pool if la.endswith("_subclass")]
        for sub_obj in alive:
            base = next(c for c in (S.IBAN, S.BIC, S.BBAN) if isinstance(sub_obj, c))
            args = (sub_obj.country_code, str(sub_obj)) if base is S.BBAN else (str(sub_obj),)
            for name, f_ in (("construct", lambda: base(*args)), ("copy_of_plain", lambda: copy.copy(base(*args))), ("deepcopy_of_plain", lambda: copy.deepcopy([base(*args)])[0]), ("pickle_of_plain", lambda: pickle.loads(pickle.dumps(base(*args), 4)))):
                o = observe(f_)
                mon.ev()
                mon.tally("plain_objects_next_to_live_subclass_instances")
                if o.ok and type(o.value) is not base:
                    mon.viol(f"plain_object_turns_into_live_subclass_instance:{name}", {"value": esc(str(sub_obj)), "live_subclass": type(sub_obj).__name__}, base.__name__, type(o.value).__name__)
    for i, (la, a) in enumerate(pool):
        if i % parts != part:
            continue
        sa = str(a)
        for lb, b in pool:
            sb = str(b)
            if la == "str" and lb == "str":
                continue
            for name, op in OPS:
                o = observe(op, a, b)
                mon.ev()
                want = op(sa, sb)
                if not o.ok or o.value is not want:
                    mon.viol(f"operator_differs_from_str:{name}:{la.split('_')[0]}:{lb.split('_')[0]}", {"a": [la, esc(sa)], "b": [lb, esc(sb)], "op": name}, want, o.brief())
            mon.distinct(("pair", i, sb, lb))
        if la != "str":
            if hash(a) != hash(sa):
                mon.viol(f"hash_differs_from_str:{la.split('_')[0]}", {"a": [la, esc(sa)]}, hash(sa), hash(a))
            try:
                ok = {a: 1}[sa] == 1 and {sa: 2}[a] == 2 and (a in {sa}) and (sa in {a})
            except KeyError:
                ok = False
            if not ok:
                mon.viol(f"dict_key_not_interchangeable:{la.split('_')[0]}", {"a": [la, esc(sa)]}, "found", "KeyError")
            mon.tally("hash_checked")
            # copies
            if i % 2 == 1:
                # every public attribute read once before copying (whatever a read leaves on the object travels
                # with its copies)
                for name_ in dir(type(a)):
                    if not name_.startswith("_") and name_ not in _STR_NAMES:
                        try:
                            getattr(a, name_)
                        except Exception:  # noqa: BLE001, S110
                            pass
                mon.tally("objects_with_every_attribute_read_before_copying")
            st = state(a)
            methods = [("copy", copy.copy), ("deepcopy", copy.deepcopy)] + [(f"pickle{p}", (lambda x, p=p: pickle.loads(pickle.dumps(x, protocol=p)))) for p in range(0, pickle.HIGHEST_PROTOCOL + 1)]
            for mname, fn in methods:
                o = observe(fn, a)
                mon.ev()
                mon.distinct(("copy", i, mname))
                w = {"object": [la, esc(sa), st.get("country_code")], "method": mname}
                kind = "pickle" if mname.startswith("pickle") else mname
                if not o.ok:
                    mon.viol(f"{kind}_raised:{la}", w, "equal object", o.brief())
                    continue
                st2 = state(o.value)
                if st2 != st or not (o.value == a) or type(o.value) is not type(a):
                    diff = sorted(k for k in set(st) | set(st2) if st.get(k) != st2.get(k))
                    mon.viol(f"{kind}_not_equal:{la}:{'+'.join(diff)[:60]}", w, st, st2)
                mon.tally("copies_checked")
            if type(a).__name__ in ("BBAN", "IBAN"):
                # the object (or its BBAN) used as the value of a constructor call for another country: a new object;
                # this one - and the copies made of it above - stay what they were
                inner = a if type(a).__name__ == "BBAN" else getattr(a, "bban", None)
                if inner is not None:
                    other_cc = "PL" if getattr(inner, "country_code", "") != "PL" else "HU"
                    on = observe(S.BBAN, other_cc, inner)
                    if on.ok and (on.value.country_code != other_cc or on.value is inner):
                        mon.viol("bban_constructor_returned_its_argument", {"object": [la, esc(sa)], "requested_country": other_cc}, "a new object of the requested country", [getattr(on.value, "country_code", None), "same object" if on.value is inner else "other object"])
                    if state(a) != st:
                        mon.viol(f"object_changed_after_use_as_constructor_argument:{la}", {"object": [la, esc(sa)], "requested_country": other_cc}, st, state(a))
                        st = state(a)
    if part == 0:
        # containers: objects with equal compact strings but different class / country, copied together
        groups: dict = {}
        for la, a in pool:
            if la != "str":
                groups.setdefault(str(a), []).append(a)
        multi = [g for g in groups.values() if len({(type(x).__name__, getattr(x, "country_code", None)) for x in g}) > 1]
        for g in multi[:60]:
            for cont in (list(g), tuple(g), {"k%d" % i: x for i, x in enumerate(g)}, [g, list(reversed(g))]):
                for mname, fn in (("deepcopy", copy.deepcopy), ("pickle", lambda x: pickle.loads(pickle.dumps(x))), ("copy_each", lambda x: copy.deepcopy(x, {}))):
                    o = observe(fn, cont)
                    mon.ev()
                    mon.distinct(("container", str(g[0]), type(cont).__name__, mname))
                    flat_in = list(cont.values()) if isinstance(cont, dict) else [y for x in cont for y in (x if isinstance(x, list) else [x])]
                    if not o.ok:
                        mon.viol(f"{mname}_of_container_raised", {"objects": [[type(x).__name__, esc(str(x)), getattr(x, "country_code", None)] for x in g]}, "copies", o.brief())
                        continue
                    flat_out = list(o.value.values()) if isinstance(o.value, dict) else [y for x in o.value for y in (x if isinstance(x, list) else [x])]
                    if [state(x) for x in flat_in] != [state(x) for x in flat_out]:
                        mon.viol(f"{mname}_of_container_not_equal", {"objects": [[type(x).__name__, esc(str(x)), getattr(x, "country_code", None)] for x in g]},
                                 [state(x) for x in flat_in][:3], [state(x) for x in flat_out][:3])
            mon.tally("containers_copied")
        objs = [x for _, x in pool]
        o = observe(sorted, objs)
        want = sorted(str(x) for x in objs)
        if not o.ok or [str(x) for x in o.value] != want:
            mon.viol("sorted_differs_from_sorted_strings", {"n": len(objs)}, want[:5], o.brief())
        mon.ev()
        mon.tally("sorted_checked")
    mon.sample({"a": [pool[0][0], str(pool[0][1])], "b": [pool[1][0], str(pool[1][1])], "ops": [n for n, _ in OPS]})
    return mon.result(out_base)


def finish(m, tier, seed):
    if not m["tallies"].get("copies_checked") and not m["viol_count"]:
        m["inconclusive"].append("copy monitor not reached")
    return {}
