"""C12 — bank-code <-> BIC look-ups agree with the bundled registry and with each other."""
from __future__ import annotations

import random

from vf import env, gen, judge, scenario
from vf.lib import Mon, observe
from vf.ref import data, lookup
from vf.ref import iban as R

META = {
    "level": "exploration",
    "rule": (
        "all (country, bank code) keys and all BICs of the tree's bank registry (enumerated completely in both "
        "tiers) plus unlisted pairs: candidates == non-empty registry BICs of the pair as a multiset with no "
        "non-primary before a primary; from_bank_code obeys the selection rule (8-character, else XXX branch, else "
        "first) and raises InvalidBankCode for unlisted / BIC-less pairs; every candidate lists the code among its "
        "domestic bank codes and exists; the IBAN built around each key has bank == first entry in file order, "
        "matching names and bic == from_bank_code(key), None for unlisted banks; the same monitors on synthetic "
        "registries in scratch copies of the package (configurations); distinct = distinct keys / BICs / pairs judged"
    ),
    "assumptions": ["R-LOOKUP over R-DATA: entries in file order; selection rule as stated in the property (any 8-character candidate is acceptable)"],
    "min_distinct": {"quick": 20000, "thorough": 40000},
    "shard_timeout": {"quick": 600, "thorough": 1800},
}
CONFIGS = {"quick": 3, "thorough": 40}


def synthetic_bank_files(rng: random.Random):
    """A small hostile bank registry: duplicate keys with mixed primary flags, several 8-character BICs,
    only-XXX, only-branch, empty BICs, one BIC under two countries, a v2 file."""
    table = data.countries()
    ccs = [c for c in ["DE", "FR", "NL", "PL", "SI", "GB", "IT", "ES", "CH", "BE", "AT", "NO"] if c in table and data.positions(table[c])]
    iso = sorted(data.iso3166_alpha2())

    def bic(kind, cc=None):
        cc = cc or rng.choice(iso)
        head = "".join(rng.choice(R.UPPER) for _ in range(4)) + cc + "".join(rng.choice(R.ALNUM) for _ in range(2))
        if kind == "8":
            return head
        if kind == "xxx":
            return head + "XXX"
        if kind == "br":
            return head + "".join(rng.choice(R.ALNUM) for _ in range(3))
        return ""

    shapes = [["8"], ["xxx"], ["br"], [""], ["8", "8"], ["8", "xxx", "br"], ["xxx", "br", "br"], ["br", "br"], ["", "8"], ["", ""], ["br", "", "xxx"], ["8", "br", "8", "xxx", ""]]
    files = {"a_main.json": [], "b_more.json": [], "c_pack.v2.json": {"expand_from": "bank_codes", "expand_into": "bank_code", "entries": []}}
    shared = bic("8", "DE")
    for cc in ccs:
        spec = table[cc]
        pos = data.positions(spec)
        comps = data.lookup_components(spec)
        if not all(c in pos for c in comps):
            continue
        cls = R.position_classes(spec["bban_spec"])
        for si, shape in enumerate(shapes):
            key = "".join("".join(rng.choice(cls[i]) for i in range(*pos[c])) for c in comps)
            for j, kind in enumerate(shape):
                e = {"country_code": cc, "bank_code": key, "bic": bic(kind, cc if rng.random() < 0.8 else None), "name": f"Bank {cc}{si}-{j}", "short_name": f"B{cc}{si}{j}", "primary": rng.random() < 0.4}
                if si == 4 and j == 0:
                    e["bic"] = shared
                files["a_main.json" if (j + si) % 2 == 0 else "b_more.json"].append(e)
        # v2 entries: one entity, several codes, with and without primary
        for k in range(3):
            codes = ["".join("".join(rng.choice(cls[i]) for i in range(*pos[c])) for c in comps) for _ in range(rng.randint(1, 4))]
            ent = {"country_code": cc, "bic": bic(rng.choice(["8", "xxx", "br", ""]), cc), "name": f"V2 {cc}{k}", "short_name": f"V{cc}{k}", "bank_codes": codes}
            if k == 0:
                ent["primary"] = True
            files["c_pack.v2.json"]["entries"].append(ent)
    return files


def plan(tier, seed):
    keys = sorted(lookup.by_key())
    n = 12 if tier == "quick" else 14
    sh = [{"kind": "keys", "part": i, "parts": n, "tier": tier, "_name": f"keys-{i}"} for i in range(n)]
    sh.append({"kind": "bics", "tier": tier, "_name": "bics"})
    sh.append({"kind": "unlisted", "tier": tier, "_name": "unlisted"})
    for i in range(3 if tier == "quick" else 20):
        sh.append({"kind": "cold", "part": i, "tier": tier, "_prelude": False, "_name": f"cold-{i}"})
    for k in range(CONFIGS[tier]):
        rng = env.rng("C12cfg", k)
        files = synthetic_bank_files(rng)
        root = scenario.make_scratch({f"bank_registry/{n_}": c for n_, c in files.items()}, drop_all=["bank_registry"])
        for kind in ("keys", "bics", "unlisted"):
            sh.append({"kind": kind, "part": 0, "parts": 1, "tier": tier, "_env": {"SCHWIFTY_REPO": root}, "_scratch": root if kind == "keys" else None, "config": k, "_name": f"cfg{k}-{kind}"})
    del keys
    return sh


def prepare_replay(shard):
    """Scratch registries are removed after a run: rebuild the configuration of this shard."""
    if shard.get("config") is None:
        return shard
    files = synthetic_bank_files(env.rng("C12cfg", shard["config"]))
    root = scenario.make_scratch({f"bank_registry/{n_}": c for n_, c in files.items()}, drop_all=["bank_registry"])
    shard["_env"] = {"SCHWIFTY_REPO": root}
    shard["_scratch"] = root
    return shard


def build_iban_around(cc, key, table, rng):
    spec = table.get(cc)
    if spec is None:
        return None
    pos = data.positions(spec)
    comps = data.lookup_components(spec)
    if not all(c in pos for c in comps):
        return None
    if sum(pos[c][1] - pos[c][0] for c in comps) != len(key):
        return None
    b = list(gen.random_bban(spec, rng))
    off = 0
    for c in comps:
        s, e = pos[c]
        b[s:e] = list(key[off : off + e - s])
        off += e - s
    b = "".join(b)
    if not R.matches_spec(spec["bban_spec"], b):
        return None
    return R.make_iban(cc, b)


def run_keys(shard, mon, S, only_keys=None):
    table = data.countries()
    idx = lookup.by_key()
    keys = sorted(idx)[shard["part"] :: shard["parts"]] if only_keys is None else [k for k in only_keys if k in idx]
    rng = env.rng("C12", shard.get("config", "tree"), shard["part"])
    _same_length: dict = {}
    for c_, sp_ in sorted(table.items()):
        _same_length.setdefault(sp_["bban_length"], []).append(c_)
    for cc, code in keys:
        entries = idx[(cc, code)]
        want = lookup.candidates(entries)
        w = {"country": cc, "bank_code": code, "config": shard.get("config", "tree")}
        mon.ev()
        mon.distinct(("key", cc, code, shard.get("config", "tree")))
        oc = observe(S.BIC.candidates_from_bank_code, cc, code)
        of = observe(S.BIC.from_bank_code, cc, code)
        if not oc.ok:
            mon.viol(f"candidates_raised_for_listed_pair:{oc.exc_name}", w, want, oc.brief())
        else:
            got = [str(x) for x in oc.value]
            if sorted(got) != sorted(want):
                mon.viol("candidates_not_registry_bics", w, want, got)
            else:
                prim = sorted(e["bic"] for e in entries if e.get("bic") and e.get("primary"))
                # primary entries first: the first len(prim) candidates are exactly the primary BICs
                if sorted(got[: len(prim)]) != prim:
                    mon.viol("non_primary_precedes_primary", w, want, got)
                if prim and len(prim) < len(got):
                    mon.tally("mixed_primary_keys")
            if hash((cc, code)) % 5 == 0:
                tam = observe(S.BIC.candidates_from_bank_code, cc, code)
                if tam.ok and isinstance(tam.value, list):
                    tam.value.append("TAMPERED")
                    tam.value.reverse()
                again = observe(S.BIC.candidates_from_bank_code, cc, code)
                if not again.ok or sorted(str(x) for x in again.value) != sorted(want):
                    mon.viol("editing_a_returned_list_changes_later_answers:candidates", w, want, again.brief())
            for cand in oc.value:
                oc2 = observe(lambda c=cand: (c.domestic_bank_codes, c.exists))
                if not oc2.ok or code not in oc2.value[0] or oc2.value[1] is not True:
                    mon.viol("candidate_not_invertible", {**w, "bic": str(cand)}, f"{code} in domestic_bank_codes and exists", oc2.brief())
            mon.tally("candidates_checked", len(got))
        if want:
            if not of.ok:
                mon.viol(f"from_bank_code_raised_for_listed_pair:{of.exc_name}", w, want, of.brief())
            elif not lookup.selection_ok(str(of.value), want):
                mon.viol("selection_rule_broken", w, {"candidates": want}, str(of.value))
            else:
                mon.tally("selection_" + ("8" if len(str(of.value)) == 8 else "xxx" if str(of.value).endswith("XXX") else "first"))
        else:
            mon.tally("listed_pair_without_bic")
            if oc.ok and len(oc.value) != 0:
                mon.viol("bicless_pair_has_candidates", w, [], [str(x) for x in oc.value])
            if of.ok or not of.is_a("InvalidBankCode"):
                mon.viol("bicless_pair_from_bank_code_not_InvalidBankCode", w, "InvalidBankCode", of.brief())
        # IBAN level
        text = build_iban_around(cc, code, table, rng)
        if text is None:
            mon.tally("key_not_placeable_in_iban")
            continue
        oi = observe(S.IBAN, text)
        if not oi.ok:
            mon.viol("iban_around_listed_bank_rejected", {**w, "iban": text}, "ACCEPT", oi.brief())
            continue
        ib = oi.value
        first = entries[0]
        ob = observe(lambda: (ib.bank, ib.bank_name, ib.bank_short_name, ib.bic))
        if not ob.ok:
            mon.viol(f"iban_bank_accessors_raised:{ob.exc_name}", {**w, "iban": text}, first, ob.brief())
            continue
        bank, name, short, bic = ob.value
        if bank != first:
            mon.viol("iban_bank_not_first_entry_in_file_order", {**w, "iban": text}, first, bank)
        if name != first.get("name") or short != first.get("short_name"):
            mon.viol("iban_bank_names_differ", {**w, "iban": text}, [first.get("name"), first.get("short_name")], [name, short])
        want_bic = str(of.value) if of.ok else None
        if (None if bic is None else str(bic)) != want_bic:
            mon.viol("iban_bic_differs_from_lookup", {**w, "iban": text}, want_bic, None if bic is None else str(bic))
        if ib.bban.bank != bank or ib.bban.bic != bic:
            mon.viol("iban_and_bban_lookup_differ", {**w, "iban": text}, repr(bank)[:100], repr(ib.bban.bank)[:100])
        mon.tally("ibans_checked")
        # the same BBAN text read under another country: look-ups must follow *that* country's key
        if len(keys) < 400 or hash((cc, code)) % 8 == 0:
            bban = text[4:]
            others = [o for o in _same_length.get(len(bban), []) if o != cc and R.matches_spec(table[o]["bban_spec"], bban)]
            for other in others[:2]:
                ospec = table[other]
                opos = data.positions(ospec)
                ocomps = data.lookup_components(ospec)
                if not all(c in opos for c in ocomps):
                    continue
                okey = "".join(bban[opos[c][0] : opos[c][1]] for c in ocomps)
                oent = idx.get((other, okey))
                ot = R.make_iban(other, bban)
                oo = observe(lambda: (lambda i: (i.bank, i.bic, i.bank_name))(S.IBAN(ot)))
                if not oo.ok:
                    mon.viol("cross_country_lookup_raised", {"iban": ot, "after": text}, "bank or None", oo.brief())
                    continue
                want_bank = oent[0] if oent else None
                if oo.value[0] != want_bank:
                    mon.viol("same_bban_text_under_other_country_gets_wrong_bank", {"iban": ot, "looked_up_before": text}, want_bank, oo.value[0])
                want_c = lookup.candidates(oent) if oent else []
                if oo.value[1] is None and want_c:
                    mon.viol("same_bban_text_under_other_country_gets_wrong_bic", {"iban": ot, "looked_up_before": text}, want_c, None)
                elif oo.value[1] is not None and not lookup.selection_ok(str(oo.value[1]), want_c):
                    mon.viol("same_bban_text_under_other_country_gets_wrong_bic", {"iban": ot, "looked_up_before": text}, want_c, str(oo.value[1]))
                mon.tally("cross_country_probes")
                # ... and the same IBAN assembled from the first IBAN's own BBAN *object* (labelled with the first
                # country): its look-ups are those of the country it was assembled for
                of2 = observe(lambda: (lambda i: (str(i), i.bank, None if i.bic is None else str(i.bic), i.bank_name))(S.IBAN.from_bban(other, ib.bban)))
                if not of2.ok:
                    mon.viol("cross_country_lookup_raised:from_bban_object", {"iban": ot, "bban_object_of": text}, "bank or None", of2.brief())
                elif of2.value[0] != ot or of2.value[1] != oo.value[0] or of2.value[2] != (None if oo.value[1] is None else str(oo.value[1])) or of2.value[3] != oo.value[2]:
                    mon.viol("iban_assembled_from_foreign_bban_object_looks_up_under_other_country", {"iban": ot, "bban_object_of": text}, [ot, repr(oo.value[0])[:120], str(oo.value[1])], [of2.value[0], repr(of2.value[1])[:120], of2.value[2]])
                # the first IBAN still answers as before
                again = observe(lambda: (ib.bank, ib.bic))
                if not again.ok or again.value[0] != bank or again.value[1] != bic:
                    mon.viol("lookup_of_earlier_iban_changed", {"iban": text, "after": ot}, repr(bank)[:100], again.brief())
    mon.sample({"key": list(keys[0]) if keys else None, "candidates": lookup.candidates(idx[keys[0]]) if keys else None})


def run_bics(shard, mon, S):
    idx = lookup.by_bic()
    rng = env.rng("C12b", shard.get("config", "tree"))
    for bic, entries in sorted(idx.items()):
        mon.ev()
        mon.distinct(("bic", bic, shard.get("config", "tree")))
        o = observe(S.BIC, bic, allow_invalid=True)
        if not o.ok:
            mon.viol("bic_object_raised", {"bic": bic}, "object", o.brief())
            continue
        b = o.value
        want_codes = sorted({e["bank_code"] for e in entries})
        want_names = sorted({e["name"] for e in entries})
        want_short = sorted({e["short_name"] for e in entries})
        og = observe(lambda: (b.domestic_bank_codes, b.bank_names, b.bank_short_names, b.exists))
        if not og.ok:
            mon.viol(f"bic_reverse_lookup_raised:{og.exc_name}", {"bic": bic}, want_codes, og.brief())
            continue
        if og.value[0] != want_codes or og.value[1] != want_names or og.value[2] != want_short or og.value[3] is not True:
            mon.viol("bic_reverse_lookup_wrong", {"bic": bic}, [want_codes, want_names, want_short, True], list(og.value))
        elif hash(bic) % 4 == 0:
            # the caller edits the lists it was given; a fresh object of the same BIC must still answer from the registry
            for lst in og.value[:3]:
                if isinstance(lst, list):
                    lst.clear()
                    lst.append("TAMPERED")
            og2 = observe(lambda: (lambda x: (x.domestic_bank_codes, x.bank_names, x.bank_short_names))(S.BIC(bic, allow_invalid=True)))
            if not og2.ok or list(og2.value) != [want_codes, want_names, want_short]:
                mon.viol("editing_a_returned_list_changes_later_answers:bic_lookup", {"bic": bic}, [want_codes, want_names, want_short], og2.brief())
        mon.tally("bics")
    from vf.props.c04 import rand_bic  # noqa: PLC0415

    for _ in range(500):
        t = rand_bic(rng)
        if t in idx:
            continue
        o = observe(lambda: (S.BIC(t).domestic_bank_codes, S.BIC(t).bank_names, S.BIC(t).exists))
        mon.ev()
        if o.ok and (o.value[0] != [] or o.value[1] != [] or o.value[2] is not False):
            mon.viol("unlisted_bic_has_data", {"bic": t}, [[], [], False], list(o.value))
    mon.sample({"bic": sorted(idx)[0] if idx else None})


def run_unlisted(shard, mon, S):
    table = data.countries()
    idx = lookup.by_key()
    rng = env.rng("C12u", shard.get("config", "tree"))
    keys = sorted(idx)
    n = 5000 if shard.get("config") is None else 600
    for i in range(n):
        cc, code = rng.choice(keys)
        r = i % 5
        if r == 0:
            code2 = gen.edit_fuzz(code, rng, 1)
            pair = (cc, code2)
        elif r == 1:
            pair = (rng.choice(sorted(table)), code)
        elif r == 2:
            pair = (cc, "")
        elif r == 3:
            pair = (rng.choice(["", "ZZ", "de", cc.lower()]), code)
        else:
            pair = (cc, "".join(rng.choice(R.DIGITS) for _ in range(len(code))))
        if pair in idx:
            continue
        mon.ev()
        mon.distinct(("unlisted", pair, shard.get("config", "tree")))
        w = {"country": pair[0], "bank_code": pair[1]}
        for name, fn in (("candidates", S.BIC.candidates_from_bank_code), ("from_bank_code", S.BIC.from_bank_code)):
            o = observe(fn, *pair)
            if o.ok or not o.is_a("InvalidBankCode"):
                mon.viol(f"unlisted_pair_{name}_not_InvalidBankCode", w, "InvalidBankCode", o.brief())
        mon.tally("unlisted_pairs")
        text = build_iban_around(pair[0], pair[1], table, rng)
        if text:
            oi = observe(S.IBAN, text)
            if oi.ok:
                ib = oi.value
                vals = (ib.bank, ib.bic, ib.bank_name, ib.bank_short_name)
                if any(v is not None for v in vals):
                    mon.viol("unlisted_bank_not_None", {**w, "iban": text}, [None] * 4, [repr(v)[:60] for v in vals])
                mon.tally("unlisted_ibans")


def run_cold(shard, mon, S):
    """First look-ups of a process, made by eight threads at once, judged by R-LOOKUP."""
    import sys  # noqa: PLC0415
    import threading  # noqa: PLC0415

    table = data.countries()
    idx = lookup.by_key()
    rng = env.rng("C12", "cold", shard["part"])
    keys = rng.sample(sorted(idx), 8)
    outs = {}
    start = threading.Barrier(len(keys))
    sys.setswitchinterval(1e-6)

    def body(i):
        cc, code = keys[i]
        t = build_iban_around(cc, code, table, random.Random(i))
        start.wait()
        o1 = observe(S.BIC.candidates_from_bank_code, cc, code)
        o2 = observe(S.BIC.from_bank_code, cc, code)
        o3 = observe(lambda: S.IBAN(t).bank) if t else None
        outs[i] = (o1, o2, o3)

    ts = [threading.Thread(target=body, args=(i,), daemon=True) for i in range(len(keys))]
    for t in ts:
        t.start()
    for t in ts:
        t.join(300)
    for i, (o1, o2, o3) in outs.items():
        cc, code = keys[i]
        want = lookup.candidates(idx[(cc, code)])
        mon.ev()
        mon.distinct(("cold", shard["part"], cc, code))
        w = {"country": cc, "bank_code": code, "threads": len(keys), "first_calls_of_process": True}
        if not o1.ok or sorted(str(x) for x in o1.value) != sorted(want):
            mon.viol("cold_start_threads:candidates_not_registry_bics", w, want, o1.brief())
        if want and (not o2.ok or not lookup.selection_ok(str(o2.value), want)):
            mon.viol("cold_start_threads:from_bank_code_wrong", w, want, o2.brief())
        if o3 is not None and (not o3.ok or o3.value != idx[(cc, code)][0]):
            mon.viol("cold_start_threads:iban_bank_wrong", w, idx[(cc, code)][0], o3.brief())
    if len(outs) != len(keys):
        mon.inconclusive.append("cold-start threads did not finish")
    mon.tally("cold_thread_starts")


def run_shard(shard, out_base):
    mon = Mon("C12")
    S = judge.lib()
    {"keys": run_keys, "bics": run_bics, "unlisted": run_unlisted, "cold": run_cold}[shard["kind"]](shard, mon, S)
    if shard.get("config") is not None:
        mon.tally(f"config_shards")
    return mon.result(out_base)


def finish(m, tier, seed):
    t = m["tallies"]
    for k in ("selection_8", "selection_xxx", "selection_first", "listed_pair_without_bic", "ibans_checked", "mixed_primary_keys"):
        if not t.get(k):
            m["inconclusive"].append(f"branch of the selection/lookup rule never reached: {k}")
    return {"exhaustive": True, "exhaustive_subspaces": "all (country, bank code) keys and all BICs of the tree's registry; synthetic configurations are sampled", "registry_keys": len(lookup.by_key()), "registry_bics": len(lookup.by_bic()), "configurations": CONFIGS[tier]}
