"""C15 — results depend only on arguments and bundled data, never on call history."""
from __future__ import annotations

import json
import os

from vf import calls, env, judge, pool
from vf.lib import Mon
from vf.mon import watch

META = {
    "level": "exploration",
    "rule": (
        "a pool of call descriptors built around collision families (same text with different flags, same BBAN value "
        "under two countries, same bank code in several countries, same seed with different countries / pins, accepted "
        "and rejected twins per algorithm, calls failing half-way) is executed under many histories, each in a fresh "
        "interpreter: canonical order, reverse, seeded permutations with repetition, every ordered pair inside each "
        "family, and as the very first call of a process; monitors: (1) history differ - every descriptor must have "
        "one canonical outcome across all histories; (2) registry write barrier (dict/list subclasses logging every "
        "mutator) + SHA-256 fingerprint of all cached registries and of the JSON files before/after each history; "
        "(3) audit hook for write-mode opens inside the package; (4) earlier-created objects re-read at the end; "
        "distinct = distinct (descriptor, history) observations"
    ),
    "assumptions": ["canonical outcome = class/str/accessors of returned objects, or exception class + message", "each history runs in its own fresh interpreter"],
    "prelude": False,
    "threads_copy": False,
    "min_distinct": {"quick": 30000, "thorough": 600000},
}
SIZES = {"quick": dict(perms=16, firsts=40, pool="quick"), "thorough": dict(perms=200, firsts=400, pool="thorough")}


_POOL = {}


def the_pool(tier, path=None):
    if tier not in _POOL:
        if path and os.path.exists(path):
            with open(path, encoding="utf-8") as fp:
                _POOL[tier] = json.load(fp)
        else:
            _POOL[tier] = pool.build(env.rng("C15", "pool"), SIZES[tier]["pool"])
    return _POOL[tier]


def pool_file(tier):
    import os  # noqa: PLC0415
    import tempfile  # noqa: PLC0415

    d = os.path.join(env.VERIF, ".work")
    os.makedirs(d, exist_ok=True)
    fd, path = tempfile.mkstemp(prefix="pool-", suffix=".json", dir=d)
    with os.fdopen(fd, "w", encoding="utf-8") as fp:
        json.dump(the_pool(tier), fp)
    return path


def plan(tier, seed):
    sz = SIZES[tier]
    sh = [{"kind": "history", "order": "canonical", "tier": tier, "_name": "h-canonical"}, {"kind": "history", "order": "reverse", "tier": tier, "_name": "h-reverse"}]
    sh += [{"kind": "history", "order": f"perm{i}", "tier": tier, "_name": f"h-perm{i}"} for i in range(sz["perms"])]
    n_pairs = 4 if tier == "quick" else 16
    sh += [{"kind": "pairs", "part": i, "parts": n_pairs, "tier": tier, "_name": f"pairs-{i}"} for i in range(n_pairs)]
    p = the_pool(tier)
    pf = pool_file(tier)
    rng = env.rng("C15", "firsts")
    firsts = rng.sample(range(len(p)), min(sz["firsts"], len(p)))
    # ... and, always: the national check of every algorithm country (the last descriptor of its BBAN-level group
    # is one with chance digits, i.e. mostly a rejected one) and one call per German method as the very first
    # call of a process
    by_grp: dict = {}
    for i_, d_ in enumerate(p):
        if d_.get("grp", "").startswith(("natb:", "algo:DE:")):
            by_grp.setdefault(d_["grp"], []).append(i_)
    firsts += [ids_[-1] for g_, ids_ in sorted(by_grp.items()) if g_.startswith("natb:")]
    firsts += [ids_[0] for g_, ids_ in sorted(by_grp.items()) if g_.startswith("algo:DE:")][:: 1 if tier != "quick" else 3]
    firsts = list(dict.fromkeys(firsts))
    per = 1 if tier == "quick" else 1
    sh += [{"kind": "first", "ids": firsts[i : i + per], "tier": tier, "_name": f"first-{firsts[i]}"} for i in range(0, len(firsts), per)]
    for i in range(2 if tier == "quick" else 12):
        sh.append({"kind": "aborts", "part": i, "tier": tier, "_name": f"aborts-{i}"})
    ks = sorted(set(range(1, 31)) | {34, 55, 89, 144, 233, 377, 610, 987, 1597, 2584, 4181, 6765, 10946, 17711, 28657, 46368, 75025})
    if tier != "quick":
        ks = sorted(set(ks) | set(range(1, 400)))
    for i in range(0, len(ks), 6):
        sh.append({"kind": "coldaborts", "ks": ks[i : i + 6], "tier": tier, "_name": f"coldaborts-{i // 6}"})
    for s_ in sh:
        s_["pool_file"] = pf
    sh[0]["_cleanup"] = [pf]
    return sh


class Recorder:
    def __init__(self, mon, S, p):
        self.mon, self.S, self.p = mon, S, p
        self.outcomes: dict = {}
        self.kept: list = []
        self.kept_state: list = []

    def call(self, i, hist_pos):
        d = self.p[i]
        watch.CONTEXT["call"] = i
        n0 = len(self.kept)
        out = calls.execute(self.S, d, self.kept)
        for o in self.kept[n0:]:
            self.kept_state.append((calls.canon(o), dict(getattr(o, "__dict__", {}))))
        watch.CONTEXT["call"] = None
        self.mon.ev()
        dg = calls.digest(out)
        prev = self.outcomes.get(i)
        if prev is None:
            self.outcomes[i] = [dg, json.dumps(out, default=str)[:300], hist_pos]
        elif prev[0] != dg:
            self.mon.viol(
                "outcome_depends_on_history:" + d["fn"],
                {"descriptor": d, "first_seen_at": prev[2], "now_at": hist_pos},
                prev[1], json.dumps(out, default=str)[:300],
            )
        return out

    def finish(self, shard_name):
        try:
            _ = {o: 1 for o in self.kept}  # using an object as a key must not change it either
            _ = sorted(self.kept, key=str)
        except Exception as e:  # noqa: BLE001
            self.mon.viol("earlier_objects_not_usable_as_keys", {"error": repr(e)[:200]}, "hashable, sortable", repr(e)[:200])
        for o, (st, dct) in zip(self.kept, self.kept_state):
            now = calls.canon(o)
            if now != st or dict(getattr(o, "__dict__", {})) != dct:
                self.mon.viol("earlier_object_changed", {"object": st.get("str") if isinstance(st, dict) else str(st)}, st, now)
        self.mon.tally("objects_rechecked", len(self.kept))
        self.mon.notes["outcomes"] = {str(i): v[:2] for i, v in self.outcomes.items()}
        self.mon.notes["shard"] = shard_name


def run_aborts(shard, mon, S, p):
    """Calls that are aborted half-way - an asynchronous exception (time-out, KeyboardInterrupt) surfacing at the
    K-th line the call executes inside the package - are calls that failed: whatever they had started must not
    show in any later call.  After every abort the aborted call itself and a fixed probe set are executed and
    compared with their outcomes from before."""
    from vf.mon.failpoint import Failpoints  # noqa: PLC0415

    rng = env.rng("C15", "aborts", shard["part"])
    fam = [i for i, d in enumerate(p) if d["fn"] in ("iban", "iban_lookup", "from_bank_code", "candidates", "generate", "random", "bban_random", "bic", "bic_lookup", "bban", "algo", "bban_check", "shared_validate", "from_bban")]
    victims = rng.sample(fam, min(len(fam), 14 if shard["tier"] == "quick" else 60))
    # stateful German methods are always among the victims
    victims += [i for i, d in enumerate(p) if d["fn"] == "algo" and d["key"] in ("DE:16", "DE:23", "DE:25", "DE:91")][:6]
    probe = rng.sample(fam, 10)
    solo = {i: calls.digest(calls.execute(S, p[i])) for i in set(victims) | set(probe)}
    fp = Failpoints(env.PKG)
    fp.install()
    try:
        for v in victims:
            _, n_lines, _ = fp.run(lambda: calls.execute(S, p[v]), 0)
            ks = list(range(1, n_lines + 1))
            cap = 30 if shard["tier"] == "quick" else 400
            if len(ks) > cap:
                ks = sorted(set(ks[: cap // 3]) | set(rng.sample(ks, cap // 3)) | set(ks[-cap // 3 :]))
            same_grp = [i for i, d in enumerate(p) if d.get("grp") and d.get("grp") == p[v].get("grp") and i != v][:3]
            for i in same_grp:
                solo.setdefault(i, calls.digest(calls.execute(S, p[i])))
            for k in ks:
                aborted, _, _ = fp.run(lambda: calls.execute(S, p[v]), k)
                mon.ev()
                mon.tally("aborted_calls" if aborted else "abort_point_not_reached")
                mon.distinct(("abort", v, k))
                for i in [v] + same_grp + probe[: 3 if shard["tier"] == "quick" else 10]:
                    out = calls.execute(S, p[i])
                    if calls.digest(out) != solo[i]:
                        mon.viol("outcome_depends_on_history:after_aborted_call:" + p[i]["fn"], {"aborted_call": p[v], "aborted_at_package_line_number": k, "later_call": p[i]}, "outcome from before the abort", json.dumps(out, default=str)[:300])
                        solo[i] = calls.digest(out)  # report each change once
    finally:
        fp.uninstall()
    mon.sample({"aborted_call": p[victims[0]], "abort_points": "every line the call executes inside the package (sampled above 30)"})


def run_coldaborts(shard, mon, S, p):
    """The same for the very first use in a process: one child interpreter per K; in it each of a fixed set of
    calls (first use of a look-up table, of an algorithm family, of the registries behind random draws) is aborted
    at its K-th package line, and then made again together with related calls; outcomes are compared with this
    (warm, never aborted) process."""
    import subprocess  # noqa: PLC0415

    rng = env.rng("C15", "coldaborts")
    by_fn: dict = {}
    for i, d in enumerate(p):
        by_fn.setdefault(d["fn"], []).append(i)
    victims = []
    for fn in ("from_bank_code", "iban_lookup", "bic_lookup", "candidates", "random", "generate", "bic", "bban_check"):
        if by_fn.get(fn):
            victims.append(rng.choice(by_fn[fn]))
    for key_ in ("DE:91", "DE:16", "DE:25", "DE:23"):
        victims += [i for i, d in enumerate(p) if d["fn"] == "algo" and d["key"] == key_][:1]
    follow = {v: [i for i, d in enumerate(p) if d.get("grp") and d.get("grp") == p[v].get("grp") and i != v][:3] + [j for j, d2 in enumerate(p) if d2.get("grp") == "edge:last"][:2] for v in victims}
    ids = sorted(set(victims) | {j for f_ in follow.values() for j in f_})
    solo = {i: calls.execute(S, p[i]) for i in ids}
    code = (
        "import sys, json\n"
        "from vf import env, calls, judge\n"
        "from vf.mon.failpoint import Failpoints\n"
        "S = judge.lib()\n"
        "calls.capture_warnings()\n"
        "p = json.load(open(sys.argv[1]))\n"
        "k = int(sys.argv[2]); plan = json.loads(sys.argv[3])\n"
        "fp = Failpoints(env.PKG); fp.install()\n"
        "out = []\n"
        "for v, follow in plan:\n"
        "    aborted, n, _ = fp.run(lambda: calls.execute(S, p[v]), k)\n"
        "    out.append([v, aborted, [[i, calls.execute(S, p[i])] for i in [v] + follow]])\n"
        "fp.uninstall()\n"
        "print(json.dumps(out))\n"
    )
    e = dict(os.environ, PYTHONPATH=env.VERIF, PYTHONHASHSEED="0", PYTHONDONTWRITEBYTECODE="1")
    for k in shard["ks"]:
        try:
            pr = subprocess.run([env.PY, "-c", code, shard["pool_file"], str(k), json.dumps([[v, follow[v]] for v in victims])], env=e, capture_output=True, text=True, timeout=600)
            doc = json.loads(pr.stdout.strip().splitlines()[-1])
        except Exception as ex:  # noqa: BLE001
            mon.inconclusive.append(f"cold abort process did not finish: {ex!r}"[:200])
            continue
        for v, aborted, outs in doc:
            mon.ev()
            mon.distinct(("coldabort", v, k))
            mon.tally("first_use_aborted" if aborted else "first_use_abort_point_not_reached")
            for i, out in outs:
                if calls.digest(out) != calls.digest(solo[i]):
                    mon.viol("outcome_depends_on_history:after_aborted_first_use:" + p[i]["fn"], {"aborted_first_call": p[v], "aborted_at_package_line_number": k, "later_call": p[i]}, json.dumps(solo[i], default=str)[:300], json.dumps(out, default=str)[:300])
    mon.sample({"aborted_first_use": p[victims[0]], "abort_points": shard["ks"]})


def run_shard(shard, out_base):
    if shard.get("kind") == "coldaborts":
        mon = Mon("C15")
        S = judge.lib()
        calls.capture_warnings()
        run_coldaborts(shard, mon, S, the_pool(shard["tier"], shard.get("pool_file")))
        return mon.result(out_base)
    if shard.get("kind") == "aborts":
        mon = Mon("C15")
        S = judge.lib()
        calls.capture_warnings()
        run_aborts(shard, mon, S, the_pool(shard["tier"], shard.get("pool_file")))
        return mon.result(out_base)
    mon = Mon("C15")
    S = judge.lib()
    calls.capture_warnings()
    from schwifty import registry  # noqa: PLC0415

    tier = shard["tier"]
    p = the_pool(tier, shard.get("pool_file"))
    watch.install_audit(env.PKG)
    files0 = watch.files_fingerprint(env.PKG)
    wrapped = watch.install(registry)
    fp0 = watch.fingerprint(registry)
    mon.notes["barrier_objects"] = wrapped
    rec = Recorder(mon, S, p)
    n = len(p)
    if shard["kind"] == "history":
        rng = env.rng("C15", shard["order"])
        if shard["order"] == "canonical":
            seq = list(range(n))
        elif shard["order"] == "reverse":
            seq = list(range(n - 1, -1, -1))
        else:
            seq = [rng.randrange(n) for _ in range(int(n * 1.3))]
        for pos, i in enumerate(seq):
            rec.call(i, pos)
            mon.distinct((shard["order"], pos, i))
            if pos == 60:
                # registries that were loaded lazily by the first calls get their barrier and fingerprint now
                if watch.install(registry):
                    fp0 = {**watch.fingerprint(registry), **fp0}
    elif shard["kind"] == "pairs":
        groups: dict = {}
        for i, d in enumerate(p):
            if d.get("grp"):
                groups.setdefault(d["grp"], []).append(i)
        names = sorted(groups)[shard["part"] :: shard["parts"]]
        pos = 0
        for g in names:
            ids = groups[g][:14]
            for a in ids:
                for b in ids:
                    rec.call(a, pos)
                    rec.call(b, pos + 1)
                    mon.distinct(("pair", a, b))
                    pos += 2
            mon.tally("groups_paired")
    else:
        for pos, i in enumerate(shard["ids"]):
            rec.call(i, pos)
            mon.distinct(("first", i))
        mon.tally("fresh_process_firsts")
    rec.finish(shard["_name"])
    # monitors 2 and 3
    for ev in watch.EVENTS[:5]:
        mon.viol("registry_mutated_after_import:" + ev["mutator"], {"event": ev, "descriptor": p[ev["call"]] if isinstance(ev["call"], int) else None}, "no mutation", ev["mutator"])
    mon.tally("barrier_events", len(watch.EVENTS))
    fp1 = watch.fingerprint(registry)
    # a registry that was first loaded / derived during the history (lazy loading) is not a modification:
    # compare the registries that existed at both times
    common = set(fp0) & set(fp1)
    if sorted(set(fp1) - set(fp0)):
        mon.tally("registries_loaded_lazily_during_history", len(set(fp1) - set(fp0)))
    if any(fp0[k] != fp1[k] for k in common):
        changed = sorted(k for k in common if fp0.get(k) != fp1.get(k))
        mon.viol("registry_fingerprint_changed", {"registries": changed, "history": shard["_name"]}, "unchanged", changed)
    if watch.files_fingerprint(env.PKG) != files0:
        mon.viol("bundled_files_changed", {"history": shard["_name"]}, files0, "changed")
    for wo in watch.WRITE_OPENS[:3]:
        mon.viol("write_open_inside_package", wo, "no write", wo["mode"])
    mon.tally("histories")
    mon.sample({"history": shard["_name"], "length": mon.evaluations, "first_calls": [p[i] for i in list(rec.outcomes)[:2]]})
    return mon.result(out_base)


def finish(m, tier, seed):
    p = the_pool(tier)
    seen: dict = {}
    for n in m["notes"]:
        for i, (dg, txt) in n.get("outcomes", {}).items():
            seen.setdefault(i, {}).setdefault(dg, (txt, n.get("shard")))
    bad = {i: v for i, v in seen.items() if len(v) > 1}
    for i, v in sorted(bad.items(), key=lambda kv: int(kv[0]))[:20]:
        d = p[int(i)]
        outs = [{"outcome": txt, "history": sh} for txt, sh in v.values()]
        mech = "outcome_depends_on_history:" + d["fn"]
        m["viol_count"][mech] = m["viol_count"].get(mech, 0) + 1
        m["violations"].append({"property": "C15", "mechanism": mech, "witness": {"descriptor": d, "outcomes": outs}, "expected": "one outcome in every history", "observed": [o["outcome"][:120] for o in outs],
                                "_shard": {"kind": "history", "order": "canonical", "tier": tier, "_name": "h-canonical"}})
    cov = len(seen)
    if cov < len(p) * 0.9:
        m["inconclusive"].append(f"only {cov} of {len(p)} descriptors observed")
    multi = sum(1 for i in seen if True)
    return {"pool_size": len(p), "descriptors_observed": multi, "descriptors_with_conflicting_outcomes": len(bad)}
