"""C08 — generated IBANs carry exactly the supplied components, padded, never altered."""
from __future__ import annotations

from vf import env, gen, judge
from vf.lib import Mon, esc, observe
from vf.ref import data
from vf.ref import generate as RG
from vf.ref import iban as R

META = {
    "level": "exploration",
    "rule": (
        "every country (with and without published positions, plus unknown codes) x component strings per class: "
        "exact width, shorter (incl. empty), combined bank+branch width, too long by one / by many; characters "
        "conforming, wrong class, lower case, embedded whitespace, non-alphanumeric ASCII, non-ASCII; through "
        "IBAN.generate and BBAN.from_components; judged by the placement model R-GEN (return exactly the modelled "
        "IBAN, or a library error - the component-specific class when a component is too long); distinct = distinct "
        "(country, bank, account, branch) with a definite R-GEN expectation"
    ),
    "assumptions": [
        "R-GEN: clean, left-pad with 0, combined-width split only when the country has a branch field, filler positions 0, national digits from R-NAT",
        "DONT_CARE: which of several too-long components is named; which library error class reports wrong-class characters; what from_components returns for wrong-class characters",
    ],
    "min_distinct": {"quick": 15000, "thorough": 600000},
}
SIZES = {"quick": 250, "thorough": 10000}
JUNK = ["-", ".", "/", "_", "!", "é", "ß", "٣", "３", "Ａ", "\x00", "ı", "​"]


def plan(tier, seed):
    cs = sorted(data.countries())
    sh = [{"countries": c, "tier": tier, "_name": f"c-{i}"} for i, c in enumerate(gen.chunk(cs, 16 if tier == "quick" else 42))]
    sh.append({"countries": ["ZZ", "XX", "", "de", "D", "DEU", "A1"], "tier": tier, "unknown": True, "_name": "unknown"})
    sh.append({"kind": "long", "tier": tier, "_name": "long-history"})
    return sh


def comp_value(rng, cls_at, width, other_width, kind):
    """A component string. cls_at: list of class strings for the field's positions (may be empty)."""
    def conf(n, right_aligned=True):
        # conforming characters for the last n positions of the field
        if not cls_at:
            return "".join(rng.choice(R.DIGITS) for _ in range(n))
        src = cls_at[-n:] if n <= len(cls_at) else [cls_at[0]] * (n - len(cls_at)) + cls_at
        return "".join(rng.choice(c) for c in src)

    if kind == "exact":
        return conf(width)
    if kind == "short":
        return conf(rng.randint(0, max(0, width - 1)))
    if kind == "empty":
        return ""
    if kind == "plus1":
        return conf(width + 1)
    if kind == "long":
        return conf(width + rng.randint(2, 9))
    if kind == "combined":
        return conf(width + other_width)
    if kind == "longjunk":
        # too long *and* carrying text that formatting / templating code treats specially
        v = conf(width + rng.randint(1, 9))
        p = rng.randint(0, len(v))
        return v[:p] + rng.choice(["{}", "{0}", "{x}", "{", "}", "{0.real}", "%s", "%(a)s", "%", "\\1", "\\", "$x", "{{", "\x00"]) + v[p:]
    if kind == "lower":
        return conf(width).lower()
    if kind == "spaced":
        v = conf(width)
        p = rng.randint(0, len(v))
        return v[:p] + rng.choice(gen.WS_VERDICT) + v[p:] + " "
    if kind == "wrongclass":
        v = list(conf(width) or "0")
        p = rng.randrange(len(v))
        v[p] = rng.choice("ABCXYZ") if v[p] in R.DIGITS else rng.choice(R.DIGITS)
        return "".join(v)
    if kind == "junk":
        v = list(conf(width) or "0")
        v[rng.randrange(len(v))] = rng.choice(JUNK)
        return "".join(v)
    return conf(width)


KINDS = ["exact", "exact", "exact", "short", "short", "empty", "plus1", "long", "combined", "lower", "spaced", "wrongclass", "junk", "longjunk"]


def field_classes(spec, pos, comp):
    cls = R.position_classes(spec["bban_spec"])
    if cls is None or comp not in pos:
        return []
    s, e = pos[comp]
    return cls[s:e]


def judge_generate(mon, S, cc, bank, acct, branch, table, extra=None):
    exp = RG.expect_generate(cc, bank, acct, branch, table)
    o = observe(S.IBAN.generate, cc, bank_code=bank, account_code=acct, branch_code=branch, **(extra or {}))
    if extra is None and hash((cc, bank, acct)) % 7 == 0:
        # the same request with the keyword arguments generate() has always accepted on top: the statement
        # (a valid IBAN carrying the components, or a library error) has no exemption for them
        for ex_ in ({"allow_invalid": True}, {"validate_bban": True}, {"allow_invalid": 1, "validate_bban": 0}):
            ox = observe(S.IBAN.generate, cc, bank_code=bank, account_code=acct, branch_code=branch, **ex_)
            mon.tally("generate_with_extra_keywords")
            if isinstance(ox.exc, TypeError):
                continue  # a tree may stop accepting unknown keywords
            if exp.kind == "error" and ox.ok:
                mon.viol("generate_with_extra_keywords_returned_despite_" + exp.why.replace(" ", "_")[:40], {"country": cc, "bank_code": esc(bank), "account_code": esc(acct), "branch_code": esc(branch), "extra": ex_}, f"library error ({exp.why})", str(ox.value))
            elif exp.kind == "return" and ox.ok and str(ox.value) != exp.iban:
                mon.viol("generate_with_extra_keywords_placed_components_wrongly", {"country": cc, "bank_code": esc(bank), "account_code": esc(acct), "branch_code": esc(branch), "extra": ex_}, exp.iban, str(ox.value))
            elif not ox.ok and not judge.is_lib_exc(ox.exc):
                mon.viol(f"escape:generate:{ox.exc_name}", {"country": cc, "extra": ex_}, "library error", ox.brief())
    mon.ev()
    mon.tally("expect_" + exp.kind)
    w = {"country": cc, "bank_code": esc(bank), "account_code": esc(acct), "branch_code": esc(branch), "why": exp.why}
    if not o.ok and not judge.is_lib_exc(o.exc):
        mon.viol(f"escape:generate:{o.exc_name}", w, "library error", o.brief())
        return
    if exp.kind == "dontcare":
        return
    mon.distinct((cc, bank, acct, branch))
    if exp.kind == "return":
        if not o.ok:
            mon.viol(f"generate_refused_conforming_components:{o.exc_name}", w, exp.iban, o.brief())
        elif str(o.value) != exp.iban:
            mon.viol("generate_placed_components_wrongly", w, exp.iban, str(o.value))
        else:
            mon.tally("returned_as_modelled")
    else:
        if o.ok:
            tag = "dropped_or_altered_component" if "longer" in exp.why or "both supplied" in exp.why else "returned_despite_" + exp.why.replace(" ", "_")[:40]
            mon.viol("generate_" + tag, w, f"library error ({exp.why})", str(o.value))
        elif exp.classes and not (o.exc_names & set(exp.classes)):
            mon.viol(f"too_long_component_wrong_class:{o.exc_name}", w, sorted(exp.classes), o.brief())
        else:
            mon.tally("error_" + o.exc_name)


def judge_components(mon, S, cc, bank, acct, branch, table):
    exp = RG.expect_generate(cc, bank, acct, branch, table)
    kw = {"bank_code": bank, "account_code": acct}
    if branch:
        kw["branch_code"] = branch
    o = observe(S.BBAN.from_components, cc, **kw)
    mon.ev()
    w = {"country": cc, "bank_code": esc(bank), "account_code": esc(acct), "branch_code": esc(branch), "api": "from_components", "why": exp.why}
    if not o.ok and not judge.is_lib_exc(o.exc):
        mon.viol(f"escape:from_components:{o.exc_name}", w, "library error", o.brief())
        return
    if exp.kind == "return":
        if not o.ok:
            mon.viol(f"from_components_refused_conforming_components:{o.exc_name}", w, exp.iban[4:], o.brief())
        elif str(o.value) != exp.iban[4:] or getattr(o.value, "country_code", None) != cc:
            mon.viol("from_components_placed_wrongly", w, exp.iban[4:], str(o.value))
    elif exp.kind == "error" and exp.classes:
        if o.ok:
            mon.viol("from_components_dropped_or_altered_component", w, sorted(exp.classes), str(o.value))
        elif not (o.exc_names & set(exp.classes)):
            mon.viol(f"from_components_too_long_wrong_class:{o.exc_name}", w, sorted(exp.classes), o.brief())


def run_long(shard, mon, S, table):
    """One process, many thousands of *distinct* requests for the countries that compute national digits, with
    requests whose computation is refused sprinkled in: whatever the library remembers between calls (and has
    to forget again at some size) must not change a later answer."""
    from vf.ref import national as N_  # noqa: PLC0415

    rng = env.rng("C08", "long")
    cs = [c for c in N_.COMPUTING if c in table and data.positions(table[c])]
    total = 9000 if shard["tier"] == "quick" else 150000
    for i in range(total):
        cc = cs[i % len(cs)]
        spec = table[cc]
        pos = data.positions(spec)
        wd = {k: (pos[k][1] - pos[k][0] if k in pos else 0) for k in ("bank_code", "branch_code", "account_code")}
        cls = {k: field_classes(spec, pos, k) for k in wd}
        kind = "junk" if i % 257 == 3 else "wrongclass" if i % 263 == 5 else "exact"
        bank = comp_value(rng, cls["bank_code"], wd["bank_code"], 0, "exact")
        acct = comp_value(rng, cls["account_code"], wd["account_code"], 0, kind)
        branch = comp_value(rng, cls["branch_code"], wd["branch_code"], 0, "exact") if wd["branch_code"] else ""
        judge_generate(mon, S, cc, bank, acct, branch, table, extra={})
    mon.tally("long_history_requests", total)
    mon.sample({"long_history": total, "countries": cs})


def run_shard(shard, out_base):
    mon = Mon("C08")
    S = judge.lib()
    table = data.countries()
    if shard.get("kind") == "long":
        run_long(shard, mon, S, table)
        return mon.result(out_base)
    n = SIZES[shard["tier"]]
    for cc in shard["countries"]:
        rng = env.rng("C08", cc)
        if shard.get("unknown") or cc not in table:
            for _ in range(20):
                judge_generate(mon, S, cc, "1234", "5678", "", table)
                judge_components(mon, S, cc, "1234", "5678", "", table)
            mon.tally("unknown_country_codes")
            continue
        spec = table[cc]
        pos = data.positions(spec)
        wd = {k: (pos[k][1] - pos[k][0] if k in pos else 0) for k in ("bank_code", "branch_code", "account_code")}
        cls = {k: field_classes(spec, pos, k) for k in wd}
        if not pos:
            mon.tally("countries_without_positions")
        for i in range(n):
            kb, ka, kr = rng.choice(KINDS), rng.choice(KINDS), rng.choice(KINDS + ["empty"] * 8)
            if i < len(KINDS):
                kb, ka, kr = KINDS[i], "exact", "empty"
            elif i < 2 * len(KINDS):
                kb, ka, kr = "exact", KINDS[i - len(KINDS)], "empty"
            elif i < 3 * len(KINDS):
                kb, ka, kr = "exact", "exact", KINDS[i - 2 * len(KINDS)]
            bank = comp_value(rng, cls["bank_code"] + (cls["branch_code"] if kb == "combined" else []), wd["bank_code"], wd["branch_code"], kb)
            acct = comp_value(rng, cls["account_code"], wd["account_code"], 0, ka)
            branch = comp_value(rng, cls["branch_code"], wd["branch_code"], 0, kr)
            judge_generate(mon, S, cc, bank, acct, branch, table)
            judge_components(mon, S, cc, bank, acct, branch, table)
        # arguments that are related to each other (what a user copies from a statement): the whole BBAN / the whole
        # IBAN / bank + account in the account code next to the matching bank code, and domestic notations with a
        # separator inside a digit string
        if pos and "bank_code" in pos and "account_code" in pos:
            for _ in range(3 if shard["tier"] == "quick" else 40):
                bb = gen.random_bban(spec, rng, "digits")
                from vf.ref import national as N_  # noqa: PLC0415

                if cc in N_.LENGTHS:
                    bb = N_.force_valid(cc, bb) or bb
                bk = bb[pos["bank_code"][0] : pos["bank_code"][1]]
                ac = bb[pos["account_code"][0] : pos["account_code"][1]]
                br = bb[pos["branch_code"][0] : pos["branch_code"][1]] if "branch_code" in pos else ""
                whole_iban = R.make_iban(cc, bb)
                for acct_ in (bb, whole_iban, bk + ac, bk + br + ac, br + ac if br else bk + ac, ac + bb[-2:], " ".join(bb[i : i + 4] for i in range(0, len(bb), 4))):
                    for br_ in ("", br):
                        judge_generate(mon, S, cc, bk, acct_, br_, table)
                        mon.tally("coordinated_arguments")
                for sep in "-/. _":
                    k_ = rng.randint(1, max(1, len(ac) - 2))
                    for acct_ in (ac[:k_] + sep + ac[k_:], ac[:2] + sep + ac[2:], ac[: max(1, len(ac) - 2)][:k_] + sep + ac[k_ : max(1, len(ac) - 2)], "19" + sep + "2000145399"[: max(1, len(ac) - 3)]):
                        judge_generate(mon, S, cc, bk, acct_, "", table)
                        judge_components(mon, S, cc, bk, acct_, "", table)
                        mon.tally("domestic_notations_with_separator")
        # sequences of from_components calls with different keyword subsets: what an earlier call supplied
        # must never show up in a later one (omitted components are empty)
        if pos:
            for _ in range(6 if shard["tier"] == "quick" else 120):
                full = {k: comp_value(rng, cls[k], wd[k], 0, "exact") for k in ("bank_code", "branch_code", "account_code") if wd[k]}
                observe(S.BBAN.from_components, cc, **full)
                keys = [k for k in full if rng.random() < 0.6]
                part = {k: comp_value(rng, cls[k], wd[k], 0, rng.choice(["exact", "short"])) for k in keys}
                exp = RG.expect_generate(cc, part.get("bank_code", ""), part.get("account_code", ""), part.get("branch_code", ""), table)
                o = observe(S.BBAN.from_components, cc, **part)
                mon.ev()
                mon.distinct((cc, "seq", tuple(sorted(part.items()))))
                w = {"country": cc, "first_call": full, "second_call": part}
                if not o.ok and not judge.is_lib_exc(o.exc):
                    mon.viol(f"escape:from_components:{o.exc_name}", w, "library error", o.brief())
                elif exp.kind == "return" and (not o.ok or str(o.value) != exp.iban[4:]):
                    mon.viol("from_components_result_depends_on_earlier_call", w, exp.iban[4:], o.brief())
                mon.tally("keyword_subset_sequences")
        mon.tally("countries")
        mon.sample({"country": cc, "bank_code": bank, "account_code": acct, "branch_code": branch})
    return mon.result(out_base)


def finish(m, tier, seed):
    t = m["tallies"]
    if t.get("returned_as_modelled", 0) < 500:
        m["inconclusive"].append("return side under-populated")
    if not any(k.startswith("error_Invalid") for k in t):
        m["inconclusive"].append("error side never reached")
    return {}
