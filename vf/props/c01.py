"""C01 — IBAN acceptance is exactly the ISO 13616 rule set over the bundled country table."""
from __future__ import annotations

import random

from vf import anchors, env, gen, judge
from vf.lib import Mon, esc
from vf.ref import data
from vf.ref import iban as R

META = {
    "level": "exploration",
    "rule": (
        "seeded workload families W1-W8 (valid corpus per country, position x wide-alphabet sweep with "
        "recomputed check digits, length sweep 0..40, all 100 check-digit pairs, all 676 prefixes, "
        "whitespace/case decoration, hostile Unicode strings, multi-edit fuzz) judged by the reference "
        "R-IBAN; distinct = distinct (normalised text, family) pairs on which the oracle gave a definite "
        "ACCEPT/REJECT verdict and the library's outcome was compared with it"
    ),
    "assumptions": [
        "CPython str.isspace/str.upper, re and json are trusted",
        "country table is whatever the tree's iban_registry/*.json merge to (re-read every run)",
        "R-IBAN (vf/ref/iban.py) encodes ISO 13616 / ISO 7064 MOD 97-10; DONT_CARE on non-ASCII characters whose upper-casing is ASCII alphanumeric and on whitespace outside {space,\\t,\\n,\\r,\\f,\\v,NBSP}",
    ],
    "min_distinct": {"quick": 100000, "thorough": 3000000},
}

SIZES = {
    "quick": dict(valid=16, sweep_positions=10, sweep_bases=1, pairs_bbans=3, w8=800, w7=4000, deco=6, prefix_bodies=4, hyp=600),
    "thorough": dict(valid=150, sweep_positions=None, sweep_bases=4, pairs_bbans=30, w8=40000, w7=200000, deco=80, prefix_bodies=30, hyp=20000),
}


def plan(tier, seed):
    table = data.countries()
    cs = sorted(table)
    n = 16 if tier == "quick" else 48
    shards = [{"kind": "country", "countries": c, "tier": tier, "_name": f"countries-{i}"} for i, c in enumerate(gen.chunk(cs, n))]
    for i in range(2 if tier == "quick" else 16):
        shards.append({"kind": "global", "part": i, "parts": 2 if tier == "quick" else 16, "tier": tier, "_name": f"global-{i}"})
    shards.append({"kind": "contracts", "tier": tier, "_name": "contracts"})
    return shards


def sweep_positions(spec, rng, k):
    n = spec["iban_length"]
    if k is None:
        return list(range(n))
    toks = R.parse_spec(spec["bban_spec"])
    bounds, p = [], 4
    for lo, hi, _ in toks:
        bounds += [p, p + hi - 1]
        p += hi
    cand = [0, 1, 2, 3, 4, n - 1] + bounds
    picks = [0, 2, 4, n - 1]
    rest = [x for x in dict.fromkeys(cand) if x not in picks and x < n]
    rng.shuffle(rest)
    picks += rest[: max(0, k - len(picks) - 1)]
    picks.append(rng.randrange(4, n))
    return sorted(set(picks))


def run_country(shard, mon: Mon):
    tier = shard["tier"]
    sz = SIZES[tier]
    table = data.countries()
    alpha = gen.wide_alphabet()
    mon.notes["alphabet_size"] = len(alpha)
    for cc in shard["countries"]:
        spec = table[cc]
        rng = env.rng("C01", cc)
        # W1 valid corpus
        bases = gen.valid_ibans(cc, spec, rng, sz["valid"])
        acc = 0
        for b in bases:
            e = judge.judge_iban_accept(mon, b, table, "W1")
            acc += e.verdict == R.ACCEPT
        mon.tally("countries_with_accept", 1 if acc else 0)
        judge.from_bban_sloppy_arguments(mon, cc, bases[0][4:], table)
        mon.sample({"family": "W1", "text": bases[0]})
        base = bases[0]
        n = len(base)
        # W2 position x alphabet
        pos = sweep_positions(spec, rng, sz["sweep_positions"])
        mon.tally("positions_swept", len(pos))
        for p, base in [(p, b) for b in bases[: sz["sweep_bases"]] for p in pos]:
            for ch in alpha:
                t = base[:p] + ch + base[p + 1 :]
                if p < 2 or p >= 4:
                    t2 = gen.refix(R.normalise(t)) if not R.ambiguous_normalisation(t) and len(R.normalise(t)) == n else t
                    if t2 != t and R.is_ascii_alnum_upper(t2):
                        # keep the original character's case/decoration out of it: only use the refixed
                        # form when the swept character survived normalisation unchanged
                        t = t2 if ch.upper() == ch else t
                judge.judge_iban_accept(mon, t, table, f"W2:{cc}:{p}")
        mon.sample({"family": "W2", "text": esc(base[:4] + alpha[200 % len(alpha)] + base[5:])})
        # W3 lengths 0..40
        last_cls = R.position_classes(spec["bban_spec"])
        filler = (last_cls[-1] if last_cls else R.DIGITS)
        for L in range(0, 41):
            if L <= n:
                t = base[:L]
            else:
                t = base + "".join(rng.choice(filler) for _ in range(L - n))
            judge.judge_iban_accept(mon, gen.refix(t), table, "W3")
            if L != n:
                judge.judge_iban_accept(mon, t, table, "W3")
        # W3n a whole IBAN where the BBAN should be (pasted twice / prefixed twice), with every way of making the
        # outer check digits "right"
        for b in bases[:2]:
            inner = b
            for t in (b[:4] + inner, R.make_iban(cc, inner), b[:2] + "00" + inner, b[:4] + b[:2] + "00" + b[4:], R.make_iban(cc, b[:2] + "00" + b[4:]), b + b[4:], b[:4] + b[:4] + b[4:]):
                judge.judge_iban_accept(mon, t, table, "W3n")
                judge.judge_iban_accept(mon, t, table, "W3n")
        # W4 all check digit pairs
        for b in bases[: sz["pairs_bbans"]]:
            bban = b[4:]
            for d in range(100):
                judge.judge_iban_accept(mon, f"{cc}{d:02d}{bban}", table, "W4")
            good = b[2:4]
            for pair in ("AA", "0A", "A0", "٠٠", "１２", good[0] + "²", "  ", "", good[::-1], good + good):
                judge.judge_iban_accept(mon, cc + pair + bban, table, "W4x")
        # printed labels around a valid value
        for t in gen.labelled(bases[0]) + gen.labelled(" ".join(bases[0][i : i + 4] for i in range(0, len(bases[0]), 4)))[:6]:
            judge.judge_iban_accept(mon, t, table, "W6label")
        # W6 decoration of valid and invalid
        for b in bases[: sz["deco"]]:
            for t in gen.decorate(b, rng):
                judge.judge_iban_accept(mon, t, table, "W6")
            bad = b[:-1] + ("0" if b[-1] != "0" else "1")
            for t in gen.decorate(bad, rng)[:4]:
                judge.judge_iban_accept(mon, t, table, "W6")
            for t in gen.decorate(b, rng, gen.WS_OTHER)[:4]:
                judge.judge_iban_accept(mon, t, table, "W6o")  # DONT_CARE zone: observe only
        # W8 edit fuzz
        for i in range(sz["w8"]):
            b = bases[i % len(bases)]
            t = gen.edit_fuzz(b, rng)
            if rng.random() < 0.5:
                t = gen.refix(t)
            judge.judge_iban_accept(mon, t, table, "W8")


def rand_text(rng: random.Random) -> str:
    mode = rng.randrange(8)
    n = rng.choice([0, 1, 2, 3, 4, 5, 8, 15, 16, 22, 27, 34, 35, 60])
    if mode == 0:
        return "".join(chr(rng.randrange(0x110000)) for _ in range(n))
    if mode == 1:
        return "".join(chr(rng.randrange(0xD800, 0xE000)) for _ in range(n))
    if mode == 2:
        return "".join(rng.choice(gen.WS_VERDICT + gen.WS_OTHER) for _ in range(n))
    if mode == 3:
        return "".join(chr(rng.randrange(0x20, 0x7F)) for _ in range(n))
    if mode == 4:
        return "".join(chr(rng.randrange(0x0, 0x300)) for _ in range(n))
    if mode == 5:
        return "".join(rng.choice(R.ALNUM + "  ") for _ in range(n))
    if mode == 6:
        a = gen.wide_alphabet()
        return "".join(rng.choice(a) for _ in range(n))
    return "".join(rng.choice(R.ALNUM) for _ in range(n)) + chr(rng.randrange(0x80, 0x3000))


def run_global(shard, mon: Mon):
    tier = shard["tier"]
    sz = SIZES[tier]
    table = data.countries()
    part, parts = shard["part"], shard["parts"]
    rng = env.rng("C01", "global", part)
    cs = sorted(table)
    # anchors (oracle self-test): test-suite literals must be classified as the suite expects
    lits = anchors.iban_literals()
    if part == 0:
        bad = [t for t in lits["valid"] + lits["experimental"] if R.expect_iban(t, table).verdict != R.ACCEPT]
        bad += [t for t in lits["invalid"] if R.expect_iban(t, table).verdict == R.ACCEPT]
        mon.notes["anchor_literals"] = sum(len(v) for v in lits.values())
        if bad:
            mon.inconclusive.append(f"oracle disagrees with test-suite literals: {bad[:3]}")
        for t in lits["valid"] + lits["experimental"] + lits["invalid"]:
            judge.judge_iban_accept(mon, t, table, "anchors")
    # texts that have just been accepted by the *other* class in this process (BIC) are judged as IBANs
    S_ = judge.lib()
    bics_ = sorted({e_.get("bic", "") for e_ in data.banks() if e_.get("bic")})
    for b_ in rng.sample(bics_, min(40, len(bics_))) + ["DEUTDEFF500", "NWBKGB2L", "deut de ff"]:
        for f_ in (lambda: S_.BIC(b_), lambda: S_.BIC(b_, allow_invalid=True).is_valid, lambda: S_.BIC(b_).exists):
            try:
                f_()
            except Exception:  # noqa: BLE001, S110
                pass
        judge.judge_iban_accept(mon, b_, table, "after_accepted_as_bic")
    # W5 prefix sweep
    by_len = {}
    for cc in cs:
        by_len.setdefault(table[cc]["iban_length"], []).append(cc)
    letters = R.UPPER
    prefixes = [a + b for a in letters for b in letters]
    mine = prefixes[part::parts]
    for pfx in mine:
        for _ in range(sz["prefix_bodies"]):
            src = rng.choice(cs)
            body = gen.random_bban(table[src], rng)
            t = R.make_iban(pfx, body)
            judge.judge_iban_accept(mon, t, table, "W5")
        if pfx in table:
            mon.tally("prefixes_listed")
        judge.judge_iban_accept(mon, R.make_iban(pfx, gen.random_bban(table[rng.choice(cs)], rng)).lower(), table, "W5")
    for pfx in ["12", "A1", "1A", "--", "  ", "", "d", "É", "ÄÖ", "ＤＥ", "DΕ"][part::parts]:
        body = gen.random_bban(table["DE"], rng)
        judge.judge_iban_accept(mon, pfx + "89" + body, table, "W5x")
    # W7 hostile strings
    for _ in range(sz["w7"] // parts):
        judge.judge_iban_accept(mon, rand_text(rng), table, "W7")
    if part == 0:
        for t in ["", " ", "\n", "A", "DE", "DE8", "DE89", "D" * 100000, "1" * 100000, " " * 100000, "DE89" + "0" * 100000,
                  "\ud800", "DE89\udc00", "\x00", "DE89 3704 0044 0532 0130 00\x00"]:
            judge.judge_iban_accept(mon, t, table, "W7x")
        mon.sample({"family": "W7", "text": esc(rand_text(rng))})
    # hypothesis text() as an additional generator
    try:
        from hypothesis import HealthCheck, given, seed as hseed, settings  # noqa: PLC0415
        from hypothesis import strategies as st  # noqa: PLC0415

        @hseed(env.seed() * 1000 + part)
        @settings(max_examples=sz["hyp"] // parts + 1, database=None, deadline=None, suppress_health_check=list(HealthCheck))
        @given(st.text(alphabet=st.characters(), max_size=40))
        def hyp(t):
            judge.judge_iban_accept(mon, t, table, "W7h")

        if not shard.get("_threads"):
            hyp()
    except ImportError:
        mon.notes["hypothesis"] = "not available"


def run_shard(shard, out_base):
    if shard.get("kind") == "contracts":
        from vf import suite  # noqa: PLC0415

        return suite.run_contract_shard("C01", out_base)
    mon = Mon("C01")
    judge.lib()
    if shard["kind"] == "country":
        run_country(shard, mon)
    else:
        run_global(shard, mon)
    return mon.result(out_base)


def finish(m, tier, seed):
    table = data.countries()
    got = m["tallies"].get("countries_with_accept", 0)
    if got < len(table) and not m["viol_count"]:
        m["inconclusive"].append(f"accept side populated for only {got} of {len(table)} countries")
    return {
        "countries_in_table": len(table),
        "countries_with_reference_valid_iban_accepted": got,
        "exhaustive": False,
        "exhaustive_subspaces": (
            "per base IBAN: all 100 check-digit pairs; all lengths 0..40; all 676 two-letter prefixes; "
            + ("every position x wide alphabet" if tier == "thorough" else "selected positions x wide alphabet")
        ),
    }
