"""C02 — IBAN check digits are computed correctly, uniquely and canonically."""
from __future__ import annotations

from vf import env, gen, judge
from vf.lib import Mon, observe
from vf.ref import data
from vf.ref import iban as R

META = {
    "level": "exploration",
    "rule": (
        "per country: structure-conforming BBANs (random per class, corner fills, and BBANs searched by the "
        "reference so that the computed digits are 02, 03, 97, 98 — the only ones with mod-97 aliases 99, 00, 01); "
        "IBAN.from_bban(country, bban) (bban as str and as BBAN) must return, carry R-IBAN's digits in 02..98 and "
        "re-parse; of the 100 texts country+dd+bban exactly the computed pair is accepted; distinct = distinct "
        "(country, bban) whose full 100-pair set was enumerated"
    ),
    "assumptions": ["R-IBAN check digits = 98 - (bban+country+'00' letter-expanded) mod 97, computed digit-wise"],
    "min_distinct": {"quick": 1500, "thorough": 50000},
}
SIZES = {"quick": dict(rand=12), "thorough": dict(rand=800)}
FORCED = ["02", "03", "97", "98"]


def plan(tier, seed):
    cs = sorted(data.countries())
    return [{"countries": c, "tier": tier, "_name": f"c-{i}"} for i, c in enumerate(gen.chunk(cs, 16 if tier == "quick" else 42))]


def forced_bbans(cc, spec, rng):
    want, out = set(FORCED), {}
    for _ in range(3000):
        b = gen.random_bban(spec, rng)
        d = R.check_digits(cc, b)
        if d in want and d not in out:
            out[d] = b
            if len(out) == len(want):
                break
    return out


def run_shard(shard, out_base):
    mon = Mon("C02")
    S = judge.lib()
    table = data.countries()
    sz = SIZES[shard["tier"]]
    for cc in shard["countries"]:
        spec = table[cc]
        rng = env.rng("C02", cc)
        forced = forced_bbans(cc, spec, rng)
        mon.tally("forced_alias_bbans", len(forced))
        bbans = list(forced.values()) + [gen.random_bban(spec, rng, s) for s in ("low", "high", "alt")]
        bbans += [gen.random_bban(spec, rng) for _ in range(sz["rand"])]
        bbans += gen.token_bbans(spec, rng)
        for b in bbans:
            want = R.check_digits(cc, b)
            w = {"country": cc, "bban": b}
            mon.tally("computed_" + ("edge" if want in FORCED else "mid"))
            for form in ("str", "BBAN"):
                arg = b if form == "str" else S.BBAN(cc, b)
                o = observe(S.IBAN.from_bban, cc, arg)
                mon.ev()
                if not o.ok:
                    mon.viol(f"from_bban_raised:{o.exc_name}", {**w, "form": form}, "valid IBAN", o.brief())
                    continue
                s = str(o.value)
                if s != cc + want + b:
                    mon.viol("from_bban_wrong_digits", {**w, "form": form}, cc + want + b, s)
                if not ("02" <= s[2:4] <= "98"):
                    mon.viol("computed_digits_outside_02_98", {**w, "form": form}, "02..98", s[2:4])
                o2 = observe(S.IBAN, s)
                if not o2.ok or str(o2.value) != s or o2.value != o.value:
                    mon.viol("from_bban_result_does_not_reparse", {**w, "form": form}, s, o2.brief())
                o3 = observe(S.IBAN.from_bban, cc, arg, validate_bban=False, allow_invalid=True)
                if not o3.ok or str(o3.value) != s:
                    mon.viol("from_bban_allow_invalid_differs", {**w, "form": form}, s, o3.brief())
            accepted = []
            for d in range(100):
                dd = f"{d:02d}"
                o = observe(S.IBAN, cc + dd + b)
                mon.ev()
                if o.ok:
                    accepted.append(dd)
                elif not judge.is_lib_exc(o.exc):
                    mon.viol(f"escape:{o.exc_name}", {**w, "digits": dd}, "library error", o.brief())
            for dd in {"00", "01", "99", f"{(int(want) + 1) % 100:02d}", f"{rng.randrange(100):02d}"} - {want}:
                ow = observe(lambda dd=dd: S.IBAN(S.IBAN(cc + dd + b, allow_invalid=True)))
                if ow.ok:
                    mon.viol("wrong_digits_accepted_when_passed_as_unvalidated_object", {**w, "digits": dd}, "rejected", ow.brief())
            mon.distinct((cc, b))
            if accepted != [want]:
                extra = [d for d in accepted if d != want]
                kind = "alias_accepted" if extra and all((int(d) - int(want)) % 97 == 0 for d in extra) else "wrong_accept_set"
                mon.viol(kind, w, [want], accepted)
        judge.from_bban_sloppy_arguments(mon, cc, bbans[0], table)
        mon.tally("countries")
        mon.sample({"country": cc, "bban": bbans[0], "computed": R.check_digits(cc, bbans[0])})
    return mon.result(out_base)


def finish(m, tier, seed):
    n = len(data.countries())
    if m["tallies"].get("forced_alias_bbans", 0) < 3 * n:
        m["inconclusive"].append("alias-bearing check digits (02,03,97,98) forced for too few countries")
    return {"exhaustive": False, "exhaustive_subspaces": "all 100 check-digit pairs of every BBAN drawn"}
