"""C04 — BIC acceptance is exactly the ISO 9362 structure with a known country code."""
from __future__ import annotations

from vf import env, gen, judge
from vf.lib import Mon, esc
from vf.props.c01 import rand_text
from vf.ref import data
from vf.ref import iban as R

META = {
    "level": "exploration",
    "rule": (
        "workload families B1-B6 (all registry BICs; every ISO 3166 code and all 676 letter pairs at "
        "positions 5-6 with random party/location/branch; position x wide-alphabet sweep on 8- and "
        "11-character bases; lengths 0..14; whitespace/case decoration; hostile Unicode and edit fuzz), "
        "each in both compliance modes, judged by R-BIC; distinct = distinct (normalised text, mode) with a "
        "definite oracle verdict that was compared with the library's outcome"
    ),
    "assumptions": [
        "ISO 3166-1 alpha-2 list = pycountry's iso3166-1.json (read with json)",
        "R-BIC encodes ISO 9362: [A-Z0-9]{4} ([A-Z]{4} strict) [A-Z]{2} [A-Z0-9]{2} ([A-Z0-9]{3})? on the whole normalised text",
        "DONT_CARE zones as in C01 (ambiguous normalisation)",
    ],
    "min_distinct": {"quick": 30000, "thorough": 1500000},
}
SIZES = {
    "quick": dict(bases=8, per_code=6, fuzz=20000, w7=4000, deco=100, hyp=600, parts=8),
    "thorough": dict(bases=160, per_code=150, fuzz=800000, w7=300000, deco=6000, hyp=20000, parts=32),
}


def plan(tier, seed):
    p = SIZES[tier]["parts"]
    return [{"part": i, "parts": p, "tier": tier, "_name": f"part-{i}"} for i in range(p)] + [{"kind": "contracts", "tier": tier, "_name": "contracts"}, {"kind": "shared", "tier": tier, "_name": "shared-object"}]


def rand_bic(rng, cc=None, n=None, strict=False):
    n = n or rng.choice([8, 11])
    party = "".join(rng.choice(R.UPPER if strict or rng.random() < 0.5 else R.ALNUM) for _ in range(4))
    cc = cc or rng.choice(sorted(data.iso3166_alpha2()))
    loc = "".join(rng.choice(R.ALNUM) for _ in range(2))
    br = "".join(rng.choice(R.ALNUM) for _ in range(3)) if n == 11 else ""
    return party + cc + loc + br


def run_shared(shard, out_base):
    """One unvalidated BIC object validated by several threads at once, each call under its own mode: every
    call is judged by the oracle for *its* mode (1 µs switch interval; the systematic exploration of this
    situation is C14's, this is the stress version on the texts where the two modes disagree)."""
    import sys  # noqa: PLC0415
    import threading  # noqa: PLC0415

    mon = Mon("C04")
    S = judge.lib()
    rng = env.rng("C04", "shared")
    texts = ["1234DEWW", "A1B2DEFF", "9ZZ9FRPPXXX", "DEUTDEFF", "DEUTDEFF500", "DEUTDEF", "DEUTXXFF"] + [rand_bic(rng) for _ in range(12)]
    objs = [(t, S.BIC(t, allow_invalid=True), {m: R.expect_bic(t, m).verdict for m in (False, True)}) for t in texts]
    n_threads, per = 6, (1500 if shard["tier"] == "quick" else 40000)
    bad, done = [], [0] * n_threads
    old = sys.getswitchinterval()
    sys.setswitchinterval(1e-6)
    start = threading.Barrier(n_threads)

    def body(k):
        r = env.rng("C04", "shared", k)
        start.wait()
        for i in range(per):
            t, o, want = objs[(i + k) % len(objs)] if i % 3 else r.choice(objs)
            strict = bool((i + k) % 2)
            try:
                got = R.ACCEPT if o.validate(enforce_swift_compliance=strict) is True else "returned-non-true"
            except Exception as e:  # noqa: BLE001
                got = R.REJECT if judge.is_lib_exc(e) else "escape:" + type(e).__name__
            done[k] += 1
            if want[strict] != R.DONT_CARE and got != want[strict]:
                bad.append((t, strict, want[strict], got))

    ts = [threading.Thread(target=body, args=(k,), daemon=True) for k in range(n_threads)]
    for t_ in ts:
        t_.start()
    for t_ in ts:
        t_.join(600)
    sys.setswitchinterval(old)
    mon.ev(sum(done))
    mon.tally("shared_object_validations_under_threads", sum(done))
    for t, _, want in objs:
        mon.distinct(("shared", t, tuple(sorted(want.items()))))
    for t, strict, want, got in bad[:4]:
        mon.viol("shared_object_validated_under_threads_gets_verdict_of_other_mode", {"text": t, "enforce_swift_compliance": strict, "threads": n_threads}, want, got)
    mon.sample({"shared_object": texts[0], "threads": n_threads, "calls": sum(done)})
    return mon.result(out_base)


def run_shard(shard, out_base):
    if shard.get("kind") == "contracts":
        from vf import suite  # noqa: PLC0415

        return suite.run_contract_shard("C04", out_base)
    if shard.get("kind") == "shared":
        return run_shared(shard, out_base)
    mon = Mon("C04")
    judge.lib()
    tier, part, parts = shard["tier"], shard["part"], shard["parts"]
    sz = SIZES[tier]
    rng = env.rng("C04", part)
    alpha = gen.wide_alphabet()
    iso = sorted(data.iso3166_alpha2())

    def J(t, tag, modes=(False, True)):
        for strict in modes:
            judge.judge_bic(mon, t, strict, tag, "accept")

    if part == 0:
        for w_ in gen.BIC_WORDS:
            for v_ in (w_, w_.lower(), w_.capitalize(), w_[:3] + " " + w_[3:]):
                J(v_, "vocabulary")
    # B1 registry BICs
    bics = sorted({e.get("bic", "") for e in data.banks() if e.get("bic")})
    for b in bics[part::parts]:
        J(b, "B1reg")
    mon.tally("registry_bics", len(bics[part::parts]))
    # texts that have just been accepted by the *other* class in this process (IBAN) are judged as BICs
    S_ = judge.lib()
    tab_ = data.countries()
    for cc_ in sorted(tab_)[part::parts][:12]:
        t_ = R.make_iban(cc_, gen.random_bban(tab_[cc_], rng))
        for f_ in (lambda: S_.IBAN(t_), lambda: S_.IBAN(t_, allow_invalid=True).is_valid, lambda: S_.IBAN(t_).bic):
            try:
                f_()
            except Exception:  # noqa: BLE001, S110
                pass
        J(t_, "after_accepted_as_iban")
        J(t_[:11], "after_accepted_as_iban")
        J(t_[:8], "after_accepted_as_iban")
    # B1/B4 every ISO code and every letter pair at positions 5-6
    pairs = [a + b for a in R.UPPER for b in R.UPPER]
    for cc in pairs[part::parts]:
        for _ in range(sz["per_code"]):
            J(rand_bic(rng, cc), "B4")
        if cc in data.iso3166_alpha2():
            mon.tally("iso_codes_exercised")
    for cc in ["de", "dE", "D1", "1D", "--", "  ", "ÄÖ", "ＤＥ", "DΕ", "XK", "EU", "UK", "AA", "ZZ"]:
        J(rand_bic(rng, "DE")[:4] + cc + "M1", "B4x")
    # B2 position x alphabet
    for bi in range(sz["bases"]):
        if bi % parts != part and tier == "quick" and bi >= 2:
            continue
        for n in (8, 11):
            base = rand_bic(rng, rng.choice(iso), n)
            if bi == 0:
                base = "GENODEM1GLS"[:n]
            for p in range(n):
                if (p + bi) % parts != part:
                    continue
                for ch in alpha:
                    J(base[:p] + ch + base[p + 1 :], f"B2:{n}:{p}")
                mon.tally("positions_swept")
    mon.sample({"family": "B2", "text": esc("GENODEM1G" + alpha[45] + "S")})
    # printed labels around valid BICs
    for _ in range(4):
        for t in gen.labelled(rand_bic(rng)):
            J(t, "B5label")
    # B3 lengths 0..14
    for _ in range(max(1, sz["bases"] // 2)):
        long = rand_bic(rng, None, 11) + "".join(rng.choice(R.ALNUM) for _ in range(5))
        for L in range(0, 15):
            J(long[:L], "B3")
    # B5 decoration
    for _ in range(max(1, sz["deco"] // parts)):
        good = rand_bic(rng)
        for t in gen.decorate(good, rng):
            J(t, "B5")
        bad = good[:5] + "1" + good[6:]
        for t in gen.decorate(bad, rng)[:4]:
            J(t, "B5")
        for t in gen.decorate(good, rng, gen.WS_OTHER)[:3]:
            J(t, "B5o")
    # B6 edit fuzz + hostile text
    for _ in range(sz["fuzz"] // parts):
        J(gen.edit_fuzz(rand_bic(rng), rng), "B6e", (rng.random() < 0.5,))
    for _ in range(sz["w7"] // parts):
        J(rand_text(rng), "B6", (rng.random() < 0.5,))
    if part == 0:
        for t in ["", " ", "A" * 100000, "GENODEM1" + "X" * 100000, "\ud800" * 8, "GENODEM1\x00\x00\x00", "GENODEM1G-S", "GENODEM1ÉÉÉ",
                  "GENODEM1 GLS", "geno de m1 gls", "1234DEM1", "GEN0DEM1", "GENODE١1", "GENODEM١"]:
            J(t, "B6x")
    try:
        from hypothesis import HealthCheck, given, seed as hseed, settings  # noqa: PLC0415
        from hypothesis import strategies as st  # noqa: PLC0415

        @hseed(env.seed() * 1000 + part)
        @settings(max_examples=sz["hyp"] // parts + 1, database=None, deadline=None, suppress_health_check=list(HealthCheck))
        @given(st.text(max_size=14), st.booleans())
        def hyp(t, strict):
            judge.judge_bic(mon, t, strict, "B6h", "accept")

        if not shard.get("_threads"):
            hyp()
    except ImportError:
        mon.notes["hypothesis"] = "not available"
    return mon.result(out_base)


def finish(m, tier, seed):
    n_iso = len(data.iso3166_alpha2())
    got = m["tallies"].get("iso_codes_exercised", 0)
    if got < n_iso:
        m["inconclusive"].append(f"only {got} of {n_iso} ISO codes exercised")
    return {"iso_codes": n_iso, "exhaustive": False,
            "exhaustive_subspaces": "all 676 letter pairs at positions 5-6; all registry BICs; all lengths 0..14 per base; every position x wide alphabet per base"}
