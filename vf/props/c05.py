"""C05 — validation is total and its errors name a defect that is really present."""
from __future__ import annotations

from vf import env, gen, judge
from vf.lib import Mon, esc
from vf.props.c01 import rand_text
from vf.props.c04 import rand_bic
from vf.ref import data, lookup
from vf.ref import germany as G
from vf.ref import iban as R
from vf.ref import national as N

META = {
    "level": "exploration",
    "rule": (
        "hostile / multi-defect IBAN and BIC texts (edit fuzz of valid values, wide-alphabet substitutions at every "
        "kind of position, hostile Unicode, prefixes of unknown countries, wrong lengths, wrong check digits, wrong "
        "national digits) through constructor, validate() and is_valid with every flag combination; monitors: only "
        "SchwiftyException may escape, is_valid never raises, constructor <=> validate <=> is_valid, raised class is "
        "in the set allowed by the defects the reference finds present; distinct = distinct (normalised text, flags)"
    ),
    "assumptions": [
        "defect sets computed by R-IBAN / R-BIC; wrong length also allows InvalidStructure; BIC country part not two letters also allows InvalidStructure",
        "national layer: R-NAT / R-DE; when they say REJECT or DONT_CARE, InvalidBBANChecksum (and Norway's InvalidAccountCode) is allowed",
    ],
    "min_distinct": {"quick": 80000, "thorough": 2500000},
}
SIZES = {"quick": dict(per_country=700, sweep=3, bic=25000, w7=8000, parts=16), "thorough": dict(per_country=30000, sweep=30, bic=1000000, w7=400000, parts=48)}


def plan(tier, seed):
    cs = sorted(data.countries())
    p = SIZES[tier]["parts"]
    shards = [{"kind": "iban", "countries": c, "tier": tier, "_name": f"iban-{i}"} for i, c in enumerate(gen.chunk(cs, p))]
    for i in range(4 if tier == "quick" else 16):
        shards.append({"kind": "misc", "part": i, "parts": 4 if tier == "quick" else 16, "tier": tier, "_name": f"misc-{i}"})
    shards.append({"kind": "contracts", "tier": tier, "_name": "contracts"})
    shards.append({"kind": "custom_country", "tier": tier, "_name": "custom-country"})
    for i in range(3 if tier == "quick" else 24):
        shards.append({"kind": "cold", "part": i, "tier": tier, "_name": f"cold-{i}"})
    return shards


_first = None


def nat_verdict(norm: str) -> str:
    global _first  # noqa: PLW0603
    cc, bban = norm[:2], norm[4:]
    if cc == "DE":
        if _first is None:
            _first = {k[1]: v[0] for k, v in lookup.by_key().items() if k[0] == "DE"}
        e = _first.get(bban[:8])
        if e is None:
            return R.ACCEPT
        m = e.get("checksum_algo", "default")
        return G.verdict(m, bban[8:]) if m in G.METHODS else R.DONT_CARE
    if cc in N.LENGTHS:
        return N.verdict(cc, bban, data.countries()[cc]["bban_length"])
    if _lib_algorithms() is not None and f"{cc}:default" in _lib_algorithms():
        return R.DONT_CARE  # an algorithm the reference does not know (feature addition): not judged
    return R.ACCEPT


_ALGOS = []


def _lib_algorithms():
    if not _ALGOS:
        try:
            from schwifty.checksum import algorithms  # noqa: PLC0415

            _ALGOS.append(algorithms)
        except Exception:  # noqa: BLE001
            _ALGOS.append(None)
    return _ALGOS[0]


def run_iban(shard, mon):
    sz = SIZES[shard["tier"]]
    table = data.countries()
    alpha = gen.wide_alphabet()
    for cc in shard["countries"]:
        spec = table[cc]
        rng = env.rng("C05", cc)
        bases = gen.valid_ibans(cc, spec, rng, 6)
        # from_bban is a validating constructor too: nothing but library errors, whatever the arguments
        judge.from_bban_sloppy_arguments(mon, cc, bases[0][4:], table)
        for i in range(sz["per_country"]):
            b = bases[i % len(bases)]
            r = rng.random()
            if r < 0.45:
                t = gen.edit_fuzz(b, rng, 3)
            elif r < 0.6:
                t = gen.refix(gen.edit_fuzz(b, rng, 2))
            elif r < 0.75:
                p = rng.randrange(len(b))
                t = b[:p] + rng.choice(alpha) + b[p + 1 :]
            elif r < 0.85:
                t = b[:2] + f"{rng.randrange(100):02d}" + b[4:]
            elif r < 0.93:
                t = R.make_iban(cc, gen.random_bban(spec, rng))
            else:
                other = rng.choice(sorted(table))
                t = R.make_iban(cc, gen.random_bban(table[other], rng))
            flag = rng.random() < 0.5
            judge.judge_iban_total(mon, t, table, "fuzz", flag, nat_verdict)
        for k in range(sz["sweep"]):
            b = bases[k % len(bases)]
            p = rng.randrange(len(b))
            for ch in alpha:
                judge.judge_iban_total(mon, b[:p] + ch + b[p + 1 :], table, f"sweep:{p}", k % 2 == 1, nat_verdict)
    mon.sample({"family": "fuzz", "text": esc(gen.edit_fuzz(bases[0], rng, 3))})


def run_misc(shard, mon):
    sz = SIZES[shard["tier"]]
    table = data.countries()
    part, parts = shard["part"], shard["parts"]
    rng = env.rng("C05", "misc", part)
    alpha = gen.wide_alphabet()
    for _ in range(sz["w7"] // parts):
        t = rand_text(rng)
        judge.judge_iban_total(mon, t, table, "W7", rng.random() < 0.5, nat_verdict)
        judge.judge_bic(mon, t, rng.random() < 0.5, "B6", "total")
    for _ in range(sz["bic"] // parts):
        base = rand_bic(rng)
        r = rng.random()
        if r < 0.5:
            t = gen.edit_fuzz(base, rng, 3)
        elif r < 0.8:
            p = rng.randrange(len(base))
            t = base[:p] + rng.choice(alpha) + base[p + 1 :]
        elif r < 0.9:
            t = base[:4] + rng.choice(R.UPPER) + rng.choice(R.UPPER) + base[6:]
        else:
            t = base
        judge.judge_bic(mon, t, rng.random() < 0.5, "bicfuzz", "total")
    if part == 0:
        # every position of a BIC x the characters that case folding / compatibility mappings relate to ASCII letters
        base = "DEUTDEFF500"
        for p_ in range(len(base)):
            for ch_ in "\u0130\u0131\u017f\u212a\u212b\u00df\ufb01\uff21\u0391\u0410\u24b6\u1e9e":
                for b_ in (base, base[:8]):
                    if p_ < len(b_):
                        for strict_ in (False, True):
                            judge.judge_bic(mon, b_[:p_] + ch_ + b_[p_ + 1 :], strict_, "bic_position_x_folding_characters", "total")
        for w_ in gen.BIC_WORDS:
            for strict_ in (False, True):
                judge.judge_bic(mon, w_, strict_, "vocabulary", "total")
    # German banks of every method, accounts from all behaviour classes of the method, judged twice in
    # different orders (an error must name a defect that is present - also the second time round)
    from vf import pool as pool_  # noqa: PLC0415

    firstrec = {k[1]: v[0] for k, v in lookup.by_key().items() if k[0] == "DE"}
    by_m: dict = {}
    for code, e in sorted(firstrec.items()):
        by_m.setdefault(e.get("checksum_algo"), []).append(code)
    for m in sorted(x for x in by_m if x in G.METHODS)[part::parts]:
        code = by_m[m][0]
        from vf.props.c07 import BOUNDARY  # noqa: PLC0415

        # behaviour classes of the method, plus the first / last elements of every published range
        accs = pool_.german_classes(m, rng, 2) + BOUNDARY
        texts = [R.make_iban("DE", code + a) for a in accs]
        for t in texts + list(reversed(texts)) + texts[:3]:
            judge.judge_iban_total(mon, t, table, f"de-method-{m}", True, nat_verdict)
        mon.tally("german_method_sequences")
    if part == 0:
        for t in ["", " ", "\x00", "DE", "DE89", "D" * 50000, "DE89" + "1" * 50000, "𐀀", "DE89 3704 0044 0532 0130 0٠",
                  "DE٨٩370400440532013000", "ＤＥ89370400440532013000", "de89370400440532013000", "DE89370400440532013000\n",
                  "NO9386011117947", "NO9386011117940", "IS140159260076545510730339", "XK051212012345678906", "GENODEM1GLS", "GENODEM1G-S"]:
            for flag in (False, True):
                judge.judge_iban_total(mon, t, table, "literal", flag, nat_verdict)
                judge.judge_bic(mon, t, flag, "literal", "total")
    mon.sample({"family": "W7", "text": esc(rand_text(rng))})


def run_cold(shard, mon):
    """Totality also holds for the very first calls of a process made from several threads at once."""
    import sys  # noqa: PLC0415
    import threading  # noqa: PLC0415

    S = judge.lib()
    table = data.countries()
    rng = env.rng("C05", "cold", shard["part"])
    first = {k[1]: v[0] for k, v in lookup.by_key().items() if k[0] == "DE"}
    codes = sorted(first)
    texts = []
    for _ in range(8):
        r = rng.random()
        if r < 0.5:
            t = R.make_iban("DE", rng.choice(codes) + "".join(rng.choice(R.DIGITS) for _ in range(10)))
        elif r < 0.8:
            cc = rng.choice(sorted(table))
            t = R.make_iban(cc, gen.random_bban(table[cc], rng))
        else:
            t = gen.edit_fuzz(R.make_iban("FR", gen.random_bban(table["FR"], rng)), rng, 2)
        texts.append(t)
    outs = {}
    start = threading.Barrier(len(texts))
    sys.setswitchinterval(1e-6)

    def body(i):
        start.wait()
        o1 = judge.observe(S.IBAN, texts[i], validate_bban=True)
        o2 = judge.observe(lambda: S.IBAN(texts[i], allow_invalid=True).is_valid)
        o3 = judge.observe(S.BIC, "GENODEM1GLS" if i % 2 else texts[i][:8])
        outs[i] = (o1, o2, o3)

    ts = [threading.Thread(target=body, args=(i,), daemon=True) for i in range(len(texts))]
    for t in ts:
        t.start()
    for t in ts:
        t.join(300)
    for i, (o1, o2, o3) in outs.items():
        mon.ev(3)
        mon.distinct(("cold", shard["part"], i))
        w = {"text": esc(texts[i]), "threads": len(texts), "first_calls_of_process": True}
        for name, o in (("ctor", o1), ("bic", o3)):
            if not o.ok and not judge.is_lib_exc(o.exc):
                mon.viol(f"escape:{name}:{o.exc_name}:cold_start_threads", w, "only SchwiftyException subclasses", o.brief())
        if not o2.ok:
            mon.viol(f"is_valid_raised:{o2.exc_name}:cold_start_threads", w, "True/False", o2.brief())
        again = judge.observe(S.IBAN, texts[i], validate_bban=True)
        if again.ok != o1.ok or (not again.ok and again.exc_name != o1.exc_name):
            mon.viol("cold_start_threads_outcome_differs_from_later_solo", w, again.brief(), o1.brief())
    mon.tally("cold_thread_starts")


def run_shard(shard, out_base):
    if shard.get("kind") == "contracts":
        from vf import suite  # noqa: PLC0415

        return suite.run_contract_shard("C05", out_base)
    mon = Mon("C05")
    if shard["kind"] == "cold":
        run_cold(shard, mon)
        return mon.result(out_base)
    judge.lib()
    if shard["kind"] == "custom_country":
        run_custom_country(shard, mon)
        return mon.result(out_base)
    (run_iban if shard["kind"] == "iban" else run_misc)(shard, mon)
    return mon.result(out_base)


def run_custom_country(shard, mon):
    """'Unknown country' means unknown to the ISO 3166 database the library consults *when it is asked*: an
    application that registers a user-assigned code through pycountry's documented add_entry (XK: SWIFT issues
    such BICs) after BICs have already been validated gets BICs of that country accepted from then on."""
    import pycountry  # noqa: PLC0415

    texts = ["NLPRXKPR", "NLPRXKPRXXX", "1234XKPR", "NLPRXQPR", "DEUTDEFF", "NLPRXKP"]
    for t in ["DEUTDEFF", "DEUTDEFF500", "NLPRXKPR", "ABCDXQ12"]:
        for strict in (False, True):
            judge.judge_bic(mon, t, strict, "before_custom_country", "total")
    if "XK" in data.iso3166_alpha2() or not hasattr(pycountry.countries, "add_entry"):
        mon.tally("custom_country_not_applicable")
        return
    pycountry.countries.add_entry(alpha_2="XK", alpha_3="XXK", name="Kosovo", numeric="926")
    data._cache["iso"] = set(data.iso3166_alpha2()) | {"XK"}
    mon.tally("custom_country_registered")
    for t in texts:
        for strict in (False, True):
            judge.judge_bic(mon, t, strict, "after_custom_country", "total")
            judge.judge_bic(mon, t, strict, "after_custom_country", "accept")


def finish(m, tier, seed):
    t = m["tallies"]
    classes = [k for k in t if k.startswith("raised_")]
    need = {"raised_InvalidStructure", "raised_InvalidLength", "raised_InvalidCountryCode", "raised_InvalidChecksumDigits", "raised_InvalidBBANChecksum"}
    missing = sorted(need - set(classes))
    if missing:
        m["inconclusive"].append(f"error classes never provoked: {missing}")
    return {"error_classes_observed": sorted(classes)}
