"""C07 — German account numbers are judged by the Bundesbank method of their bank."""
from __future__ import annotations

from vf import anchors, env, gen, judge, scenario
from vf.lib import Mon, observe
from vf.ref import data, lookup
from vf.ref import germany as G
from vf.ref import iban as R

META = {
    "level": "exploration",
    "rule": (
        "(a) every implemented method called directly on accounts of 2..10 significant digits, with the check "
        "position(s) swept over all ten digits so that accept and reject twins exist, plus range boundaries, judged "
        "by R-DE; (b) every German bank code of the registry x accounts through IBAN(..., validate_bban=True), "
        "method taken from the first registry entry of the bank (R-LOOKUP); unlisted / unimplemented => must "
        "accept; (c) same method under two bank codes must agree; distinct = distinct (method, account) resp. "
        "(bank code, account) with a definite R-DE verdict that was compared"
    ),
    "assumptions": [
        "R-DE (vf/ref/germany.py) encodes the Bundesbank methods from the published rules; DONT_CARE on sub-rules not reconstructed with certainty (13/63/76 shifted sub-account forms, 23 remainder 1 with digit 0, 68 below six digits, 76 remainder 10 with digit 0)",
        "anchors: the 70 literals of tests/test_checksum.py must agree with R-DE or the check is inconclusive",
    ],
    "min_distinct": {"quick": 100000, "thorough": 10000000},
}
SIZES = {"quick": dict(direct=1200, per_bank=3, unlisted=300), "thorough": dict(direct=80000, per_bank=120, unlisted=20000)}
BOUNDARY = ["0000000000", "0000000001", "0000005999", "0000006000", "0000059999", "0000060000", "0000060001",
            "0395999999", "0396000000", "0396000001", "0428480235", "0499999999", "0500000000", "0400000000", "0399999999",
            "9999999999", "0999999999", "0099999999", "1000000000", "0100000000", "0400000001", "0499999998"]


def lib_methods(S):
    try:
        from schwifty.checksum import algorithms  # noqa: PLC0415
    except Exception:  # noqa: BLE001
        return None
    return algorithms


def plan(tier, seed):
    shards = [{"kind": "direct", "methods": ms, "tier": tier, "_name": f"direct-{ms[0]}"} for ms in gen.chunk(sorted(G.METHODS), 13 if tier == "quick" else 39)]
    codes = sorted({e["bank_code"] for e in data.banks() if e.get("country_code") == "DE" and e.get("bank_code")})
    for i, ch in enumerate(gen.chunk(codes, 8 if tier == "quick" else 32)):
        shards.append({"kind": "api", "codes": ch, "tier": tier, "_name": f"api-{i}"})
    shards.append({"kind": "unlisted", "tier": tier, "_name": "unlisted"})
    shards.append(synthetic_shard(tier))
    return shards


def synthetic_banks():
    """One synthetic German bank per method of the reference (incl. the methods no bundled bank uses) plus
    banks with unknown / missing methods: exercises the bank-code -> method dispatch for every method."""
    used = {e["bank_code"] for e in data.banks() if e.get("country_code") == "DE"}
    out, n = [], 0
    for m in sorted(G.METHODS) + ["ZZ", "default", None]:
        while True:
            n += 1
            code = f"990{n:05d}"
            if code not in used:
                break
        e = {"country_code": "DE", "bank_code": code, "bic": "", "name": f"Synthetic {m}", "short_name": f"S{m}", "primary": True}
        if m is not None:
            e["checksum_algo"] = m
        out.append(e)
    return out


def synthetic_shard(tier):
    banks = synthetic_banks()
    root = scenario.make_scratch({"bank_registry/zz_synthetic_methods.json": banks})
    return {"kind": "api", "codes": [b["bank_code"] for b in banks], "tier": tier, "synthetic": True, "per_bank": 40 if tier == "quick" else 1500,
            "_env": {"SCHWIFTY_REPO": root}, "_scratch": root, "_name": "api-synthetic-methods"}


def prepare_replay(shard):
    if shard.get("synthetic"):
        root = scenario.make_scratch({"bank_registry/zz_synthetic_methods.json": synthetic_banks()})
        shard["_env"] = {"SCHWIFTY_REPO": root}
        shard["_scratch"] = root
    return shard


def accounts(rng, n):
    for i in range(n):
        k = rng.choice([2, 3, 4, 5, 6, 6, 7, 8, 8, 9, 9, 10, 10, 10])
        yield "".join(rng.choice(R.DIGITS) for _ in range(k)).zfill(10)


def variants(a, rng):
    """Sweep one of the possible check positions (d7, d8, d10) over all digits."""
    p = rng.choice([9, 9, 9, 7, 6])
    return [a[:p] + d + a[p + 1 :] for d in R.DIGITS]


def lib_direct(algos, method, a):
    o = observe(algos["DE:" + method].validate, [a], "")
    if o.ok:
        return bool(o.value), o
    if judge.is_lib_exc(o.exc):
        return False, o
    return None, o


def run_direct(shard, mon, S):
    algos = lib_methods(S)
    if algos is None:
        mon.inconclusive.append("schwifty.checksum.algorithms not importable: direct monitor not reached")
        return
    sz = SIZES[shard["tier"]]
    implemented = sorted(k[3:] for k in algos if k.startswith("DE:"))
    mon.notes["implemented_methods"] = implemented
    mon.notes["uncovered_by_reference"] = [m for m in implemented if m not in G.METHODS]
    for m in shard["methods"]:
        if "DE:" + m not in algos:
            mon.tally("reference_method_not_implemented")
            continue
        rng = env.rng("C07", m)
        seen = {R.ACCEPT: 0, R.REJECT: 0, R.DONT_CARE: 0}
        pool = list(BOUNDARY)
        for a in accounts(rng, sz["direct"]):
            pool.extend(variants(a, rng))
        for a in pool:
            want = G.verdict(m, a)
            got, o = lib_direct(algos, m, a)
            mon.ev()
            seen[want] += 1
            w = {"method": m, "account": a}
            if got is None:
                mon.viol(f"escape:direct:{o.exc_name}", w, "bool or library error", o.brief())
                continue
            if want == R.DONT_CARE:
                continue
            mon.distinct((m, a))
            if got != (want == R.ACCEPT):
                mon.viol(f"method_{m}:{'false_accept' if got else 'false_reject'}", w, want, o.brief())
        # judged again after all the others (and in reverse order): same verdicts as the first time
        firsts = {}
        for a in pool[:120]:
            firsts[a] = lib_direct(algos, m, a)[0]
        for a in list(reversed(pool[:120])) + pool[:40]:
            got, o = lib_direct(algos, m, a)
            mon.ev()
            want = G.verdict(m, a)
            if got != firsts[a] or (want != R.DONT_CARE and got is not None and got != (want == R.ACCEPT)):
                mon.viol(f"method_{m}:verdict_changes_when_judged_again", {"method": m, "account": a}, firsts[a], o.brief())
        mon.tally("methods_direct")
        mon.tally("ref_accept", seen[R.ACCEPT])
        mon.tally("ref_reject", seen[R.REJECT])
        mon.tally("ref_dont_care", seen[R.DONT_CARE])
        if seen[R.ACCEPT] < 20 or (seen[R.REJECT] < 20 and m != "09"):
            mon.inconclusive.append(f"method {m}: accept/reject side under-populated {seen}")
        mon.sample({"method": m, "account": pool[-1], "reference": G.verdict(m, pool[-1])})


def first_entries():
    return {k[1]: v[0] for k, v in lookup.by_key().items() if k[0] == "DE"}


def listed_methods():
    """bank code -> set of methods named by its registry records (the statement speaks of the bank code
    being listed with a method, not of a particular record)."""
    out = {}
    for k, v in lookup.by_key().items():
        if k[0] == "DE":
            out[k[1]] = {e["checksum_algo"] for e in v if e.get("checksum_algo")}
    return out


def run_api(shard, mon, S):
    algos = lib_methods(S) or {}
    sz = SIZES[shard["tier"]]
    first = first_entries()
    named = listed_methods()
    table = data.countries()
    from vf.props.c12 import build_iban_around  # noqa: PLC0415

    foreign = {}
    for (c2, k2) in lookup.by_key():
        if c2 != "DE":
            foreign.setdefault(k2, []).append(c2)
    for code in shard["codes"]:
        for c2 in foreign.get(code, [])[:2]:
            # another country lists the same key digits: touch its bank first (verdict must not depend on it)
            t2 = build_iban_around(c2, code, table, env.rng("C07f", code, c2))
            if t2:
                observe(lambda t2=t2: (S.IBAN(t2).bank, S.IBAN(t2, validate_bban=True)))
                mon.tally("foreign_same_key_touched_first")
        entry = first[code]
        ms = named.get(code, set())
        if len(ms) > 1:
            mon.tally("bank_codes_with_conflicting_methods_skipped")
            continue
        m = next(iter(ms)) if ms else "default"
        if entry.get("checksum_algo", "default") != m:
            mon.tally("first_record_without_the_method")
        implemented = ("DE:" + m) in algos
        rng = env.rng("C07api", code)
        if not R.matches_spec("8!n", code):
            mon.tally("bank_code_not_8_digits")
            continue
        accs = []
        per_bank = shard.get("per_bank", sz["per_bank"])
        for a in accounts(rng, per_bank):
            vs = variants(a, rng)
            accs += [vs[0], rng.choice(vs[1:])] if per_bank <= 3 else vs[:4]
        for a in accs:
            want = G.verdict(m, a) if implemented else R.ACCEPT
            text = R.make_iban("DE", code + a)
            o = observe(S.IBAN, text, validate_bban=True)
            mon.ev()
            w = {"bank_code": code, "method": m, "account": a, "iban": text}
            if not o.ok and not judge.is_lib_exc(o.exc):
                mon.viol(f"escape:api:{o.exc_name}", w, "library error", o.brief())
                continue
            if not o.ok and not o.is_a("InvalidBBANChecksum"):
                mon.viol(f"api_failure_class:{o.exc_name}", w, "InvalidBBANChecksum", o.brief())
            if o.ok:
                bank = o.value.bank
                if bank is None or bank != entry:
                    mon.viol("api_bank_entry_not_first_in_file_order", w, entry, repr(bank)[:200])
            if a is accs[0]:
                judge.repeated_validation_consistent(mon, text, o, w)
                for form, arg in (("str", code + a), ("BBAN", S.BBAN("DE", code + a))):
                    ofb = observe(S.IBAN.from_bban, "DE", arg, validate_bban=True)
                    ofp = observe(S.IBAN.from_bban, "DE", arg, False, True)
                    if ofb.ok != o.ok or ofp.ok != o.ok:
                        mon.viol(f"from_bban_with_flag_disagrees:{form}", w, o.brief(), [ofb.brief(), ofp.brief()])
                judge.call_forms_agree(mon, "iban", text, True, o, w)
            if want == R.DONT_CARE:
                mon.tally("api_dont_care")
                continue
            mon.distinct((code, a))
            mon.tally("api_accept" if o.ok else "api_reject")
            if o.ok != (want == R.ACCEPT):
                kind = "false_accept" if o.ok else "false_reject"
                tag = f"api:method_{m}:{kind}" if implemented else "api:unimplemented_method_rejected"
                mon.viol(tag, w, want, o.brief())
        # the bank's first account once more, after the others
        if accs and implemented:
            a0 = accs[0]
            o_again = observe(S.IBAN, R.make_iban("DE", code + a0), validate_bban=True)
            want0 = G.verdict(m, a0)
            if want0 != R.DONT_CARE and o_again.ok != (want0 == R.ACCEPT):
                mon.viol(f"api:method_{m}:verdict_changes_when_judged_again", {"bank_code": code, "method": m, "account": a0}, want0, o_again.brief())
        mon.tally("api_methods_" + ("impl" if implemented else "unimpl"))
        if shard.get("synthetic"):
            mon.tally("synthetic_banks")
    mon.tally("bank_codes", len(shard["codes"]))


def run_unlisted(shard, mon, S):
    """Unlisted banks must be accepted whatever the account; same method under two banks must agree."""
    sz = SIZES[shard["tier"]]
    first = first_entries()
    rng = env.rng("C07", "unlisted")
    n = 0
    while n < sz["unlisted"]:
        code = "".join(rng.choice(R.DIGITS) for _ in range(8))
        if code in first:
            continue
        n += 1
        a = next(accounts(rng, 1))
        text = R.make_iban("DE", code + a)
        o = observe(S.IBAN, text, validate_bban=True)
        mon.ev()
        mon.distinct(("unlisted", code, a))
        if not o.ok:
            mon.viol("unlisted_bank_rejected", {"bank_code": code, "account": a, "iban": text}, "ACCEPT", o.brief())
        elif o.value.bank is not None:
            mon.viol("unlisted_bank_has_entry", {"bank_code": code}, None, repr(o.value.bank)[:200])
    by_method: dict = {}
    for code, e in sorted(first.items()):
        by_method.setdefault(e.get("checksum_algo", "default"), []).append(code)
    for m, codes in sorted(by_method.items()):
        if len(codes) < 2:
            continue
        for _ in range(4 if shard["tier"] == "quick" else 60):
            c1, c2 = rng.sample(codes, 2)
            for a in variants(next(accounts(rng, 1)), rng)[:3]:
                o1 = observe(S.IBAN, R.make_iban("DE", c1 + a), validate_bban=True)
                o2 = observe(S.IBAN, R.make_iban("DE", c2 + a), validate_bban=True)
                mon.ev()
                mon.distinct(("pair", m, c1, c2, a))
                if o1.ok != o2.ok:
                    mon.viol("same_method_different_banks_disagree", {"method": m, "banks": [c1, c2], "account": a}, o1.brief(), o2.brief())
        mon.tally("methods_paired")
    # anchors
    lits = anchors.german_literals()
    bad = [(a, m) for a, m in lits["success"] if G.verdict(m[3:], a) != R.ACCEPT] + [(a, m) for a, m in lits["failure"] if G.verdict(m[3:], a) != R.REJECT]
    mon.notes["anchor_literals"] = len(lits["success"]) + len(lits["failure"])
    if bad:
        mon.inconclusive.append(f"R-DE disagrees with test-suite literals {bad[:3]}")


def run_shard(shard, out_base):
    mon = Mon("C07")
    S = judge.lib()
    {"direct": run_direct, "api": run_api, "unlisted": run_unlisted}[shard["kind"]](shard, mon, S)
    return mon.result(out_base)


def finish(m, tier, seed):
    t = m["tallies"]
    if t.get("methods_direct", 0) < 30:
        m["inconclusive"].append(f"only {t.get('methods_direct', 0)} methods reached directly")
    return {"methods_in_reference": len(G.METHODS), "exhaustive_subspaces": "every German bank code of the registry (each at least once); all ten digits at the swept check position of every drawn account"}
