"""C17 — the bundled country and bank data are internally consistent."""
from __future__ import annotations

from vf import env, gen, judge
from vf.lib import Mon, observe
from vf.props.c12 import build_iban_around
from vf.ref import data, lookup
from vf.ref import iban as R
from vf.ref import national as N

META = {
    "level": "exploration",
    "rule": (
        "every country entry and every bank entry of the tree's data (enumerated completely in both tiers): structure "
        "string expands to bban_length positions; iban_length = bban_length + 4 <= 34; "
        "positions inside the BBAN, non-empty, non-overlapping; registered national algorithms read only "
        "defined fields; check field present where digits are computed; bank entry: country in table, BIC empty or "
        "R-BIC-valid, bank code empty or fitting the bank-identifying field(s) in length and classes; reachability: the "
        "IBAN built around the entry is accepted by the library, .bank is found and carries the entry's bank code; the "
        "library's effective tables equal R-DATA; distinct = distinct entries judged"
    ),
    "assumptions": ["only internal consistency is decidable offline; agreement with the SWIFT/ISO source documents is not"],
    "min_distinct": {"quick": 25000, "thorough": 25000},
}
FILLERS = {"quick": 1, "thorough": 12}


def plan(tier, seed):
    n = 12
    sh = [{"kind": "countries", "tier": tier, "_name": "countries"}]
    sh += [{"kind": "banks", "part": i, "parts": n, "tier": tier, "_name": f"banks-{i}"} for i in range(n)]
    return sh


def run_countries(shard, mon, S):
    table = data.countries()
    try:
        from schwifty import registry  # noqa: PLC0415
        from schwifty.checksum import algorithms  # noqa: PLC0415
    except Exception:  # noqa: BLE001
        registry, algorithms = None, {}
    eff = None
    if registry is not None:
        eff = {k: {kk: vv for kk, vv in v.items() if kk != "regex"} for k, v in registry.get("iban").items()}
        if eff != table:
            diff = sorted(k for k in set(eff) | set(table) if eff.get(k) != table.get(k))[:5]
            mon.viol("effective_country_table_differs_from_files", {"countries": diff}, "R-DATA merge", "library view differs")
        if registry.get("bank") != data.banks():
            mon.viol("effective_bank_list_differs_from_files", {}, "R-DATA concatenation", "library view differs")
    # a registry file that names the same key twice inside one object silently loses the earlier value when it is
    # read: every object of every bundled file has distinct keys
    import glob  # noqa: PLC0415
    import json as js_  # noqa: PLC0415
    import os as os_  # noqa: PLC0415

    def _pairs(prs, _path=[]):  # noqa: B006
        seen_ = {}
        for k_, v_ in prs:
            if k_ in seen_:
                dups.append(k_)
            seen_[k_] = v_
        return seen_

    for fp_ in sorted(glob.glob(os_.path.join(env.PKG, "iban_registry", "*.json")) + glob.glob(os_.path.join(env.PKG, "bank_registry", "*.json"))):
        dups: list = []
        try:
            with open(fp_, encoding="utf-8") as fh_:
                js_.load(fh_, object_pairs_hook=_pairs)
        except Exception:  # noqa: BLE001, S112
            continue
        mon.ev()
        mon.tally("registry_files_scanned_for_duplicate_keys")
        if dups:
            mon.viol("registry_file_names_a_key_twice", {"file": os_.path.relpath(fp_, env.PKG), "keys": sorted(set(dups))[:8]}, "distinct keys in every object", sorted(set(dups))[:8])
    for cc, spec in sorted(table.items()):
        mon.ev()
        mon.distinct(("country", cc))
        w = {"country": cc, "bban_spec": spec.get("bban_spec"), "bban_length": spec.get("bban_length")}
        toks = R.parse_spec(spec.get("bban_spec", ""))
        if toks is None:
            mon.viol("structure_string_not_parseable", w, "n!x tokens", spec.get("bban_spec"))
            continue
        lo, hi = sum(t[0] for t in toks), sum(t[1] for t in toks)
        L = spec.get("bban_length")
        if not (lo == hi == L):
            mon.viol("structure_length_mismatch", w, L, [lo, hi])
        if spec.get("iban_length") != (L or 0) + 4 or spec.get("iban_length", 99) > 34:
            mon.viol("iban_length_arithmetic", w, f"{L}+4<=34", spec.get("iban_length"))
        if spec.get("iban_spec") != f"{cc}2!n{spec.get('bban_spec')}":
            mon.tally("note_iban_spec_differs_from_country_2n_bban_spec")  # not part of the property (territories carry the parent's iban_spec)
        # the IBAN structure string is a structure string of the country too: two letters, "2!n" and then the
        # very structure the BBAN string gives (the two letters may be the parent country's), and it describes
        # exactly the stated IBAN length
        ispec = spec.get("iban_spec")
        if isinstance(ispec, str):
            mon.tally("iban_structure_strings_checked")
            itoks = R.parse_spec(ispec[2:]) if len(ispec) > 2 and ispec[:2].isalpha() and ispec[:2].isupper() else None
            if itoks is None:
                mon.viol("iban_structure_string_not_parseable", w, "two letters + n!x tokens", ispec)
            else:
                if 2 + sum(t[1] for t in itoks) != spec.get("iban_length") or sum(t[0] for t in itoks) != sum(t[1] for t in itoks):
                    mon.viol("iban_structure_string_length_mismatch", {**w, "iban_spec": ispec}, spec.get("iban_length"), 2 + sum(t[1] for t in itoks))
                if ispec[2:] != "2!n" + str(spec.get("bban_spec")):
                    mon.viol("iban_structure_string_disagrees_with_bban_structure", {**w, "iban_spec": ispec}, "2!n" + str(spec.get("bban_spec")), ispec[2:])
        if "country" in spec and spec["country"] != cc:
            mon.tally("country_key_differs_note")
        pos = spec.get("positions") or {}
        cover = [None] * ((L or 0) + 1)
        for comp, rng_ in pos.items():
            if comp not in data.COMPONENTS:
                mon.tally("note_component_name_unknown_to_harness")
            if not (isinstance(rng_, list) and len(rng_) == 2 and all(isinstance(x, int) for x in rng_)):
                mon.viol("position_not_a_pair", {**w, "component": comp}, "[start,end]", rng_)
                continue
            s, e = rng_
            if not (0 <= s < e <= (L or 0)):
                mon.viol("position_out_of_bounds_or_empty", {**w, "component": comp}, f"0<=s<e<={L}", rng_)
                continue
            for i in range(s, e):
                if cover[i] is not None:
                    mon.viol("positions_overlap", {**w, "components": [cover[i], comp]}, "disjoint", i)
                    break
                cover[i] = comp
        for comp in spec.get("bic_lookup_components", []) or []:
            if comp not in pos:
                mon.viol("lookup_component_without_position", {**w, "component": comp}, "defined", None)
        algo = algorithms.get(f"{cc}:default") if algorithms else None
        if algo is not None:
            mon.tally("countries_with_algorithm")
            for comp in getattr(algo, "accepts", []):
                comp = getattr(comp, "value", comp)
                if comp in pos:
                    continue
                adjacent = "bank_code" in pos and "account_code" in pos and pos["bank_code"][1] == pos["account_code"][0]
                if comp == "branch_code" and adjacent:
                    mon.tally("absent_branch_read_as_empty_tolerated")
                    continue
                mon.viol("algorithm_reads_undefined_field", {**w, "component": comp}, "field defined for the country", sorted(pos))
        if algo is not None:
            # behavioural side of "reads only fields the country defines": generation and national validation
            # must work on this country's fields (absent fields read as empty must not break the algorithm)
            from random import Random  # noqa: PLC0415

            okc = 0
            for k in range(12):
                od = observe(S.IBAN.random, cc, random=Random(f"c17/{cc}/{k}"), use_registry=False)
                if od.ok:
                    okc += 1
                    ov = observe(od.value.validate, validate_bban=True)
                    # (whether a draw also satisfies the national check is C09's business and only for the
                    # countries that compute digits; here only: no foreign exception)
                    if not ov.ok and not judge.is_lib_exc(ov.exc):
                        mon.viol(f"algorithm_not_operable_on_country_fields:{ov.exc_name}", {**w, "iban": str(od.value)}, "library error or accept", ov.brief())
                elif not judge.is_lib_exc(od.exc):
                    mon.viol(f"algorithm_not_operable_on_country_fields:{od.exc_name}", w, "draw succeeds or overflow error", od.brief())
            if okc == 0:
                mon.viol("algorithm_never_produces_an_iban_for_country", w, "some of 12 seeded draws succeed", "all failed")
            t2 = R.make_iban(cc, gen.random_bban(spec, env.rng("C17a", cc)))
            ov = observe(S.IBAN, t2, validate_bban=True)
            if not ov.ok and not judge.is_lib_exc(ov.exc):
                mon.viol(f"algorithm_not_operable_on_country_fields:{ov.exc_name}", {**w, "iban": t2}, "library error or accept", ov.brief())
        if cc in N.COMPUTING and "national_checksum_digits" not in pos:
            mon.viol("check_field_missing_for_computing_country", w, "national_checksum_digits position", sorted(pos))
        if cc in N.CHECK_FIELD and "national_checksum_digits" in pos and N.LENGTHS.get(cc) == L and tuple(pos["national_checksum_digits"]) != N.CHECK_FIELD[cc]:
            mon.viol("check_field_not_at_published_position", w, list(N.CHECK_FIELD[cc]), pos["national_checksum_digits"])
        # library view: a reference-valid IBAN of the country is accepted (regex consistent with structure)
        rng = env.rng("C17", cc)
        t = R.make_iban(cc, gen.random_bban(spec, rng))
        o = observe(S.IBAN, t)
        if not o.ok:
            mon.viol("reference_valid_iban_rejected", {**w, "iban": t}, "ACCEPT", o.brief())
        mon.tally("countries")
    # the effective tables must still equal the files after the library has been used
    if registry is not None:
        from random import Random  # noqa: PLC0415

        keys = sorted(lookup.by_key())
        urng = env.rng("C17", "usage")
        for k in range(300):
            cc = urng.choice(sorted(table))
            pos = data.positions(table[cc])
            pins = {}
            if pos and k % 2:
                c = urng.choice(sorted(pos))
                cls = R.position_classes(table[cc]["bban_spec"])
                if cls is not None:  # (an unparseable structure string has been reported above)
                    pins[c] = "".join(urng.choice(x) for x in cls[pos[c][0] : pos[c][1]])
            observe(S.IBAN.random, cc, random=Random(f"u{k}"), **pins)
            c2, code = urng.choice(keys)
            observe(S.BIC.from_bank_code, c2, code)
            observe(S.BIC.candidates_from_bank_code, c2, code)
            # generation with a bank code exactly as the registry lists it, with and without other components
            observe(S.IBAN.generate, c2, code, "1234567")
            observe(S.IBAN.generate, c2, code, "1", "1")
            observe(S.BBAN.from_components, c2, bank_code=code, account_code="7")
        eff2 = {k: {kk: vv for kk, vv in v.items() if kk != "regex"} for k, v in registry.get("iban").items()}
        if eff2 != table:
            mon.viol("effective_country_table_differs_from_files_after_use", {}, "R-DATA merge", "library view differs")
        if registry.get("bank") != data.banks():
            lb = registry.get("bank")
            i = next((i for i, (a, b) in enumerate(zip(lb, data.banks())) if a != b), -1)
            mon.viol("effective_bank_list_differs_from_files_after_use", {"index": i}, data.banks()[i] if i >= 0 else None, lb[i] if i >= 0 else None)
        mon.tally("post_usage_recheck")
    mon.sample({"country": "DE", "entry": table.get("DE")})


def run_banks(shard, mon, S):
    table = data.countries()
    banks = data.banks()
    idx = lookup.by_key()
    part, parts = shard["part"], shard["parts"]
    nfill = FILLERS[shard["tier"]]
    same_len: dict = {}
    for c_, sp_ in sorted(table.items()):
        same_len.setdefault(sp_["bban_length"], []).append(c_)
    for i in range(part, len(banks), parts):
        e = banks[i]
        mon.ev()
        mon.distinct(("bank", i))
        cc, code, bic = e.get("country_code"), e.get("bank_code"), e.get("bic")
        w = {"index": i, "country_code": cc, "bank_code": code, "bic": bic, "name": str(e.get("name"))[:40]}
        for k in ("country_code", "bank_code", "bic", "name", "short_name", "primary"):
            if k not in e:
                mon.viol(f"bank_entry_missing_key:{k}", w, k, sorted(e))
        if cc not in table:
            mon.viol("bank_country_not_in_table", w, "country of the table", cc)
            continue
        if bic:
            if R.expect_bic(bic).verdict != R.ACCEPT or R.normalise(bic) != bic:
                mon.viol("bank_bic_invalid", w, "empty or ISO 9362 valid, compact upper-case", bic)
            else:
                mon.tally("bics_valid")
        if not code:
            mon.tally("entries_without_bank_code")
            continue
        spec = table[cc]
        pos = data.positions(spec)
        comps = data.lookup_components(spec)
        if not all(c in pos for c in comps):
            mon.viol("bank_identifying_field_undefined_for_country", w, comps, sorted(pos))
            continue
        cls = R.position_classes(spec["bban_spec"]) or []
        want_cls = [k for c in comps for k in cls[pos[c][0] : pos[c][1]]]
        if len(code) != len(want_cls):
            mon.viol("bank_code_length_does_not_fit_field", w, len(want_cls), len(code))
            continue
        if not all(ch in k for ch, k in zip(code, want_cls)):
            mon.viol("bank_code_characters_do_not_fit_field", w, spec["bban_spec"], code)
            continue
        first = idx[(cc, code)][0]
        for f in range(nfill):
            rng = env.rng("C17b", i, f)
            t = build_iban_around(cc, code, table, rng)
            if t is None:
                mon.viol("bank_cannot_occur_in_structure_conforming_iban", w, "placeable", None)
                break
            o = observe(S.IBAN, t)
            if not o.ok:
                mon.viol("iban_around_bank_rejected", {**w, "iban": t}, "ACCEPT", o.brief())
                break
            bank = o.value.bank
            if bank is None or bank.get("bank_code") != code:
                mon.viol("bank_not_found_again_from_iban", {**w, "iban": t}, code, repr(bank)[:120])
                break
            if bank != first:
                mon.viol("bank_found_is_not_first_entry", {**w, "iban": t}, first, bank)
                break
            mon.tally("reachable")
            if f == 0 and i % 6 == 0:
                # the same BBAN text under another country must find *that* country's bank (or none)
                bb = t[4:]
                for other in same_len.get(len(bb), []):
                    if other == cc or not R.matches_spec(table[other]["bban_spec"], bb):
                        continue
                    opos = data.positions(table[other])
                    ocomps = data.lookup_components(table[other])
                    if not all(c in opos for c in ocomps):
                        continue
                    okey = "".join(bb[opos[c][0] : opos[c][1]] for c in ocomps)
                    oent = idx.get((other, okey))
                    oo = observe(lambda: S.IBAN(R.make_iban(other, bb)).bank)
                    if not oo.ok or oo.value != (oent[0] if oent else None):
                        mon.viol("listed_bank_shadowed_by_same_text_of_other_country", {**w, "iban": R.make_iban(other, bb), "looked_up_before": t}, oent[0] if oent else None, oo.brief())
                    mon.tally("cross_country_probes")
                    break
    mon.sample({"entry": banks[part] if part < len(banks) else None})


def run_shard(shard, out_base):
    mon = Mon("C17")
    S = judge.lib()
    (run_countries if shard["kind"] == "countries" else run_banks)(shard, mon, S)
    return mon.result(out_base)


def finish(m, tier, seed):
    nb, nc = len(data.banks()), len(data.countries())
    if m["evaluations"] < nb + nc and not m["viol_count"]:
        m["inconclusive"].append(f"only {m['evaluations']} of {nb + nc} entries judged")
    return {"exhaustive": True, "country_entries": nc, "bank_entries": nb, "fillers_per_entry": FILLERS[tier]}
