"""C03 — every single typing error in a valid IBAN is detected."""
from __future__ import annotations

from vf import env, gen, judge
from vf.lib import Mon, observe
from vf.ref import data
from vf.ref import iban as R

META = {
    "level": "exploration",
    "rule": (
        "per country: reference-built valid IBANs; for each, every position >= 2 x every different character of "
        "the same kind (digit/letter), and every adjacent transposition of two different same-kind characters; "
        "IBAN(mutant) must raise a library error; distinct = distinct mutants checked (the mutant set of each "
        "base IBAN is enumerated completely)"
    ),
    "assumptions": ["relational oracle only (mod 97 detects all such errors); base IBANs come from R-IBAN and must be accepted first"],
    "min_distinct": {"quick": 150000, "thorough": 6000000},
}
SIZES = {"quick": 6, "thorough": 300}


def plan(tier, seed):
    cs = sorted(data.countries())
    return [{"countries": c, "tier": tier, "_name": f"c-{i}"} for i, c in enumerate(gen.chunk(cs, 16 if tier == "quick" else 63))]


def kind(c):
    return "d" if c in R.DIGITS else "l" if c in R.UPPER else None


def run_shard(shard, out_base):
    mon = Mon("C03")
    S = judge.lib()
    table = data.countries()
    for cc in shard["countries"]:
        spec = table[cc]
        rng = env.rng("C03", cc)
        bases = gen.valid_ibans(cc, spec, rng, SIZES[shard["tier"]])
        # make sure letters occur where the structure allows them
        bases.append(R.make_iban(cc, gen.random_bban(spec, rng, "letters")))
        extra = [R.make_iban(cc, gen.random_bban(spec, rng, "letters")) for _ in range(12)]
        for b in bases:
            o = observe(S.IBAN, b)
            if not o.ok:
                mon.viol("base_rejected", {"iban": b}, "ACCEPT", o.brief())
                # keep looking for a letter-heavy base that the library does accept
                nxt = next((x for x in extra if observe(S.IBAN, x).ok), None)
                if nxt is None:
                    continue
                extra.remove(nxt)
                b = nxt
            mon.tally("bases")
            for p in range(2, len(b)):
                k = kind(b[p])
                pool = R.DIGITS if k == "d" else R.UPPER
                for ch in pool:
                    if ch == b[p]:
                        continue
                    t = b[:p] + ch + b[p + 1 :]
                    o = observe(S.IBAN, t)
                    mon.ev()
                    mon.distinct(t)
                    mon.tally("subst")
                    if o.ok:
                        mon.viol("substitution_accepted:" + ("checkdigits" if p < 4 else k), {"base": b, "mutant": t, "pos": p}, "rejected", o.brief())
                    elif not judge.is_lib_exc(o.exc):
                        mon.viol(f"escape:{o.exc_name}", {"base": b, "mutant": t}, "library error", o.brief())
                if p + 1 < len(b) and b[p] != b[p + 1] and kind(b[p]) == kind(b[p + 1]):
                    t = b[:p] + b[p + 1] + b[p] + b[p + 2 :]
                    o = observe(S.IBAN, t)
                    mon.ev()
                    mon.distinct(t)
                    mon.tally("transp")
                    if o.ok:
                        mon.viol("transposition_accepted", {"base": b, "mutant": t, "pos": p}, "rejected", o.brief())
        mon.sample({"base": bases[0], "mutant": bases[0][:5] + ("1" if bases[0][5] != "1" else "2") + bases[0][6:]})
    return mon.result(out_base)


def finish(m, tier, seed):
    if m["tallies"].get("transp", 0) < 1000:
        m["inconclusive"].append("too few transpositions")
    return {"exhaustive": False, "exhaustive_subspaces": "per base IBAN: all same-kind single substitutions at positions >= 2 and all adjacent same-kind transpositions"}
