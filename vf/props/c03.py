"""C03 — every single typing error in a valid IBAN is detected."""
from __future__ import annotations

from vf import env, gen, judge
from vf.lib import Mon, observe
from vf.ref import data
from vf.ref import iban as R

META = {
    "level": "exploration",
    "rule": (
        "per country: reference-built valid IBANs; for each, every position >= 2 x every different character of "
        "the same kind (digit/letter), and every adjacent transposition of two different same-kind characters; "
        "IBAN(mutant) must raise a library error; distinct = distinct mutants checked (the mutant set of each "
        "base IBAN is enumerated completely)"
    ),
    "assumptions": ["relational oracle only (mod 97 detects all such errors); base IBANs come from R-IBAN and must be accepted first"],
    "min_distinct": {"quick": 150000, "thorough": 6000000},
}
SIZES = {"quick": 6, "thorough": 300}


def plan(tier, seed):
    cs = sorted(data.countries())
    sh = [{"countries": c, "tier": tier, "_name": f"c-{i}"} for i, c in enumerate(gen.chunk(cs, 16 if tier == "quick" else 63))]
    sh += [{"kind": "threads", "part": i, "tier": tier, "_name": f"threads-{i}"} for i in range(2 if tier == "quick" else 8)]
    return sh


def kind(c):
    return "d" if c in R.DIGITS else "l" if c in R.UPPER else None


def run_threads(shard, mon, S, table):
    """The same guarantee while several threads validate: valid bases and their mutants interleaved."""
    import sys  # noqa: PLC0415
    import threading  # noqa: PLC0415

    rng = env.rng("C03", "threads", shard["part"])
    cs = sorted(table)
    work = []
    for cc in rng.sample(cs, 12):
        b = R.make_iban(cc, gen.random_bban(table[cc], rng, "letters"))
        muts = []
        for _ in range(6):
            p = rng.randrange(2, len(b))
            pool = R.DIGITS if b[p] in R.DIGITS else R.UPPER
            ch = rng.choice([c for c in pool if c != b[p]])
            muts.append(b[:p] + ch + b[p + 1 :])
        work.append((b, muts))
    accepted, wrongly_rejected = [], []
    old = sys.getswitchinterval()
    sys.setswitchinterval(1e-6)
    rounds = 40 if shard["tier"] == "quick" else 1500
    n_threads = 8
    counts = [0] * n_threads

    def body(t):
        for r in range(rounds):
            b, muts = work[(t + r) % len(work)]
            if not observe(S.IBAN, b).ok:
                wrongly_rejected.append(b)
            for m in muts:
                for _ in range(2):
                    counts[t] += 1
                    if observe(S.IBAN, m).ok:
                        accepted.append((b, m))

    ts = [threading.Thread(target=body, args=(t,), daemon=True) for t in range(n_threads)]
    for t in ts:
        t.start()
    for t in ts:
        t.join(900)
    sys.setswitchinterval(old)
    mon.ev(sum(counts))
    mon.tally("threaded_mutant_validations", sum(counts))
    for i, (b, muts) in enumerate(work):
        for m in muts:
            mon.distinct(("thr", m))
    for b, m in accepted[:3]:
        mon.viol("mutant_accepted_under_threads", {"base": b, "mutant": m, "threads": n_threads}, "rejected", "accepted")
    for b in wrongly_rejected[:3]:
        mon.viol("valid_base_rejected_under_threads", {"base": b, "threads": n_threads}, "accepted", "rejected")
    # the systematic version for a few bases: the valid IBAN and one typing error of it under every single
    # preemption point of either call (deterministic scheduler), and the mistyped text once more right afterwards
    from vf.mon.sched import Scheduler  # noqa: PLC0415

    sched = Scheduler(env.PKG, "line")
    sched.install()
    try:
        for b, muts in work[: 3 if shard["tier"] == "quick" else 12]:
            m = next((x for x in muts if x[:4] == b[:4]), muts[0])
            th = [lambda: observe(S.IBAN, b).ok, lambda: observe(S.IBAN, m).ok]
            base_run = sched.run(th, first=0)
            for first, n_first in ((0, base_run["steps"][0]), (1, base_run["steps"][1])):
                for k in range(1, n_first + 1):
                    r = sched.run(th, first=first, preempt={(first, k)})
                    again = observe(S.IBAN, m).ok
                    mon.ev()
                    mon.tally("scheduled_valid_vs_typo")
                    mon.distinct(("sched", b, m, first, k))
                    if r["hung"]:
                        mon.inconclusive.append("scheduled pair hung")
                        continue
                    if r["results"][0] is not True:
                        mon.viol("valid_base_rejected_under_threads", {"base": b, "mutant": m, "schedule": {"first": first, "preempt": [[first, k]]}}, "accepted", r["results"][0])
                    if r["results"][1] is not False or again:
                        mon.viol("mutant_accepted_under_threads", {"base": b, "mutant": m, "schedule": {"first": first, "preempt": [[first, k]]}, "accepted_when": "during the schedule" if r["results"][1] else "presented again afterwards"}, "rejected", "accepted")
    finally:
        sched.uninstall()


def run_shard(shard, out_base):
    mon = Mon("C03")
    S = judge.lib()
    table = data.countries()
    if shard.get("kind") == "threads":
        run_threads(shard, mon, S, table)
        return mon.result(out_base)
    early: list = []  # mutants met early in this process, presented again at its end
    for cc in shard["countries"]:
        spec = table[cc]
        rng = env.rng("C03", cc)
        bases = gen.valid_ibans(cc, spec, rng, SIZES[shard["tier"]])
        # make sure letters occur where the structure allows them
        bases.append(R.make_iban(cc, gen.random_bban(spec, rng, "letters")))
        extra = [R.make_iban(cc, gen.random_bban(spec, rng, "letters")) for _ in range(12)]
        # bases around bank codes the registry lists - under this country and under countries that share its
        # structure (their codes are ordinary digits here, but the library may recognise them)
        from vf.props.c12 import build_iban_around  # noqa: PLC0415
        from vf.ref import lookup  # noqa: PLC0415

        by_cc: dict = {}
        for (c_, k_) in lookup.by_key():
            by_cc.setdefault(c_, []).append(k_)
        twins_ = [o_ for o_ in sorted(table) if o_ != cc and table[o_]["bban_spec"] == spec["bban_spec"] and by_cc.get(o_)]
        for o_ in [cc] * bool(by_cc.get(cc)) + rng.sample(twins_, min(2, len(twins_))):
            for k_ in rng.sample(sorted(by_cc[o_]), min(2 if shard["tier"] == "quick" else 12, len(by_cc[o_]))):
                t_ = build_iban_around(o_, k_, table, rng)
                if t_ and R.matches_spec(spec["bban_spec"], t_[4:]):
                    bases.append(R.make_iban(cc, t_[4:]))
                    mon.tally("bases_around_listed_bank_codes")
        for b in bases:
            o = observe(S.IBAN, b)
            if not o.ok:
                mon.viol("base_rejected", {"iban": b}, "ACCEPT", o.brief())
                # keep looking for a letter-heavy base that the library does accept
                nxt = next((x for x in extra if observe(S.IBAN, x).ok), None)
                if nxt is None:
                    continue
                extra.remove(nxt)
                b = nxt
            mon.tally("bases")
            for p in range(2, len(b)):
                k = kind(b[p])
                pool = R.DIGITS if k == "d" else R.UPPER
                for ch in pool:
                    if ch == b[p]:
                        continue
                    t = b[:p] + ch + b[p + 1 :]
                    o = observe(S.IBAN, t)
                    mon.ev()
                    mon.distinct(t)
                    mon.tally("subst")
                    if len(early) < 400 and (len(early) < 40 or mon.evaluations % 97 == 0):
                        early.append((b, t))
                    if o.ok:
                        mon.viol("substitution_accepted:" + ("checkdigits" if p < 4 else k), {"base": b, "mutant": t, "pos": p}, "rejected", o.brief())
                    elif not judge.is_lib_exc(o.exc):
                        mon.viol(f"escape:{o.exc_name}", {"base": b, "mutant": t}, "library error", o.brief())
                    if ch in (pool[(pool.index(b[p]) + 2) % len(pool)], pool[(pool.index(b[p]) + 5) % len(pool)]):
                        # the same typing error with national validation requested: still an error
                        of = observe(S.IBAN, t, validate_bban=True)
                        ov = observe(lambda t=t: S.IBAN(t, allow_invalid=True).validate(validate_bban=True))
                        mon.tally("mutants_with_national_flag")
                        if of.ok or ov.ok:
                            mon.viol("substitution_accepted:with_validate_bban", {"base": b, "mutant": t, "pos": p}, "rejected", [of.brief(), ov.brief()])
                    if ch == pool[(pool.index(b[p]) + 1) % len(pool)]:
                        # the same mutant handed over as an unvalidated IBAN object (still a text)
                        ow = observe(lambda t=t: S.IBAN(S.IBAN(t, allow_invalid=True)))
                        osub = observe(lambda t=t: judge.subclasses()["HelperIBAN"](t))
                        mon.tally("mutants_as_objects")
                        if osub.ok:
                            mon.viol("substitution_accepted:through_user_subclass", {"base": b, "mutant": t, "pos": p}, "rejected", osub.brief())
                        if ow.ok:
                            mon.viol("substitution_accepted:passed_as_unvalidated_object", {"base": b, "mutant": t, "pos": p}, "rejected", ow.brief())
                if b is bases[0] or p % 5 == 0:
                    # "a different character of the same kind" also covers digits / letters of other scripts
                    if k == "d":
                        alts = [chr(0x0660 + int(b[p])), chr(0x06F0 + int(b[p])), chr(0xFF10 + int(b[p])), chr(0x0966 + (int(b[p]) + 1) % 10), chr(0x1D7CE + int(b[p]))]
                    else:
                        alts = [chr(0xFF21 + R.UPPER.index(b[p])), {"A": "\u0391", "B": "\u0392", "E": "\u0395", "K": "\u212a", "O": "\u039f", "P": "\u0420"}.get(b[p], "\u00c9")]
                    for ch2 in alts:
                        t2 = b[:p] + ch2 + b[p + 1 :]
                        for kw2 in ({}, {"validate_bban": True}):
                            o2 = observe(S.IBAN, t2, **kw2)
                            mon.ev()
                            mon.tally("other_script_substitutions")
                            if o2.ok:
                                mon.viol("substitution_accepted:other_script_character", {"base": b, "mutant": t2.encode("unicode_escape").decode(), "pos": p}, "rejected", o2.brief())
                            elif not judge.is_lib_exc(o2.exc):
                                mon.viol(f"escape:{o2.exc_name}", {"base": b, "mutant": t2.encode("unicode_escape").decode()}, "library error", o2.brief())
                if p + 1 < len(b) and b[p] != b[p + 1] and kind(b[p]) == kind(b[p + 1]):
                    t = b[:p] + b[p + 1] + b[p] + b[p + 2 :]
                    o = observe(S.IBAN, t)
                    mon.ev()
                    mon.distinct(t)
                    mon.tally("transp")
                    if o.ok:
                        mon.viol("transposition_accepted", {"base": b, "mutant": t, "pos": p}, "rejected", o.brief())
        mon.sample({"base": bases[0], "mutant": bases[0][:5] + ("1" if bases[0][5] != "1" else "2") + bases[0][6:]})
    # tens of thousands of distinct texts later: the early mutants are still typing errors, their bases still valid
    n_between = mon.tallies.get("subst", 0)
    for b, t in early:
        o, ob = observe(S.IBAN, t), observe(S.IBAN, b)
        mon.ev()
        mon.tally("early_mutants_presented_again")
        if o.ok:
            mon.viol("substitution_accepted:when_presented_again_later", {"base": b, "mutant": t, "distinct_texts_in_between": n_between}, "rejected", o.brief())
        if not ob.ok:
            mon.viol("base_rejected:when_presented_again_later", {"iban": b, "distinct_texts_in_between": n_between}, "ACCEPT", ob.brief())
    return mon.result(out_base)


def finish(m, tier, seed):
    if m["tallies"].get("transp", 0) < 1000:
        m["inconclusive"].append("too few transpositions")
    return {"exhaustive": False, "exhaustive_subspaces": "per base IBAN: all same-kind single substitutions at positions >= 2 and all adjacent same-kind transpositions"}
