"""C11 — an IBAN or BIC decomposes losslessly into its published fields."""
from __future__ import annotations

from vf import env, gen, judge
from vf.lib import Mon, observe, soft_attr
from vf.props.c04 import rand_bic
from vf.ref import data
from vf.ref import iban as R

META = {
    "level": "exploration",
    "rule": (
        "every country: reference-built valid IBANs (all character styles); country_code + checksum_digits + bban == "
        "str; every named component equals the BBAN slice at the position the tree's data publish ('' when the "
        "country has no such field); IBAN accessors equal BBAN accessors; published fields do not overlap; "
        "IBAN.from_bban(country, bban) equals the IBAN; every registry BIC and random BICs: four parts concatenate "
        "to str with lengths 4/2/2/(0|3); distinct = distinct accepted objects decomposed"
    ),
    "assumptions": [
        "positions are those of the tree's JSON (R-DATA); a consistent shift inside the data moves library and oracle together and is out of reach offline (see DESIGN C11 limit)",
    ],
    "min_distinct": {"quick": 12000, "thorough": 300000},
}
SIZES = {"quick": dict(per_country=60, bics=4000), "thorough": dict(per_country=3000, bics=200000)}
COMPONENTS = data.COMPONENTS


def plan(tier, seed):
    cs = sorted(data.countries())
    sh = [{"kind": "iban", "countries": c, "tier": tier, "_name": f"iban-{i}"} for i, c in enumerate(gen.chunk(cs, 14 if tier == "quick" else 42))]
    sh.append({"kind": "bic", "tier": tier, "_name": "bic"})
    sh.append({"kind": "contracts", "tier": tier, "_name": "contracts"})
    sh.append({"kind": "xproc", "tier": tier, "_env": {"PYTHONHASHSEED": "12"}, "_name": "xproc"})
    return sh


def run_iban(shard, mon, S):
    table = data.countries()
    by_spec: dict = {}
    for c_, sp_ in sorted(table.items()):
        by_spec.setdefault(sp_["bban_spec"], []).append(c_)
    compat = {c_: [o for o in by_spec[table[c_]["bban_spec"]] if o != c_] for c_ in table}
    from vf.props.c12 import build_iban_around  # noqa: PLC0415
    from vf.ref import lookup  # noqa: PLC0415

    listed: dict = {}
    for (c_, k_) in sorted(lookup.by_key()):
        listed.setdefault(c_, []).append(k_)
    for cc in shard["countries"]:
        spec = table[cc]
        pos = data.positions(spec)
        L = spec["bban_length"]
        # overlap / bounds of the published fields (data-level, also C17)
        cover = [0] * (L + 1)
        for comp, (s, e) in pos.items():
            if not (0 <= s < e <= L):
                mon.viol("field_out_of_bounds", {"country": cc, "component": comp, "range": [s, e]}, f"inside [0,{L}]", [s, e])
                continue
            for i in range(s, e):
                cover[i] += 1
        if any(c > 1 for c in cover):
            mon.viol("fields_overlap", {"country": cc, "positions": {k: list(v) for k, v in pos.items()}}, "disjoint", "overlap")
        rng = env.rng("C11", cc)
        texts = gen.valid_ibans(cc, spec, rng, SIZES[shard["tier"]]["per_country"])
        # IBANs of listed banks (the registry must not leak into the decomposition)
        lk = listed.get(cc, [])
        for code in (rng.sample(lk, min(len(lk), 25 if shard["tier"] == "quick" else 400))):
            tb = build_iban_around(cc, code, table, rng)
            if tb:
                texts.append(tb)
                mon.tally("listed_bank_ibans_decomposed")
        # every *accepted* IBAN must decompose and re-assemble: also offer the mod-97 aliases of the
        # computed digits and neighbouring digits; whatever the library accepts is decomposed too
        extra = []
        for t in texts[:6]:
            d = int(t[2:4])
            for alt in (d + 97, d - 97, d + 1, d - 1, 0, 1, 99):
                if 0 <= alt <= 99 and alt != d:
                    extra.append(t[:2] + f"{alt:02d}" + t[4:])
        for text in texts + extra:
            o = observe(S.IBAN, text)
            mon.ev()
            if not o.ok:
                if text in texts:
                    mon.viol("reference_valid_iban_rejected", {"iban": text}, "ACCEPT", o.brief())
                continue
            if text not in texts:
                mon.tally("accepted_non_reference_iban_decomposed")
            ib = o.value
            s = str(ib)
            bban = s[4:]
            w = {"iban": s}
            mon.distinct(s)
            if ib.country_code + ib.checksum_digits + str(ib.bban) != s or ib.country_code != s[:2] or ib.checksum_digits != s[2:4]:
                mon.viol("iban_parts_do_not_concatenate", w, s, [ib.country_code, ib.checksum_digits, str(ib.bban)])
            if ib.bban.country_code != cc or type(ib.bban).__name__ != "BBAN":
                mon.viol("bban_country_wrong", w, cc, getattr(ib.bban, "country_code", None))
            for comp in COMPONENTS:
                want = bban[pos[comp][0] : pos[comp][1]] if comp in pos else ""
                gi = observe(getattr, ib, comp)
                gb = observe(getattr, ib.bban, comp)
                if not gi.ok or not gb.ok:
                    mon.viol(f"accessor_raised:{comp}", w, want, [gi.brief(), gb.brief()])
                    continue
                if gi.value != want:
                    mon.viol(f"component_not_published_slice:{comp}" + ("" if comp in pos else ":absent_field"), {**w, "component": comp, "range": list(pos.get(comp, ()))}, want, gi.value)
                if gi.value != gb.value:
                    mon.viol(f"iban_accessor_differs_from_bban:{comp}", w, gb.value, gi.value)
                mon.tally("component_reads")
            if text is texts[0]:
                sub_ = judge.subclasses()["HelperIBAN"]
                osub = observe(sub_, text)
                if osub.ok:
                    x = osub.value
                    for name, y in (("from_bban", observe(S.IBAN.from_bban, x.country_code, x.bban)), ("reparse", observe(S.IBAN, soft_attr(x, "compact", str(x)))), ("same_class", observe(sub_, str(x)))):
                        if not y.ok or not (y.value == x) or not (x == y.value) or hash(y.value) != hash(x) or (y.value not in {x}):
                            mon.viol(f"subclass_instance_not_equal_to_reassembled:{name}", w, s, y.brief())
                else:
                    mon.viol("subclass_instance_rejected", w, "accepted", osub.brief())
            o2 = observe(S.IBAN.from_bban, ib.country_code, ib.bban)
            o3 = observe(S.IBAN.from_bban, ib.country_code, str(ib.bban))
            for oo in (o2, o3):
                if not oo.ok or oo.value != ib or str(oo.value) != s:
                    mon.viol("reassembly_not_equal", w, s, oo.brief())
            # the BBAN object of this IBAN re-assembled under another country with a compatible structure:
            # the result must decompose by *that* country's published positions
            for other in compat.get(cc, [])[:2]:
                t2 = R.make_iban(other, bban)
                o4 = observe(S.IBAN.from_bban, other, ib.bban)
                o5 = observe(S.IBAN, t2)
                mon.tally("cross_country_reassemblies")
                if not o4.ok or not o5.ok or str(o4.value) != t2:
                    mon.viol("cross_country_reassembly_wrong_text", {**w, "other": other}, t2, [o4.brief(), o5.brief()])
                    continue
                opos = data.positions(table[other])
                for comp in COMPONENTS:
                    want = bban[opos[comp][0] : opos[comp][1]] if comp in opos else ""
                    got = observe(getattr, o4.value, comp)
                    if not got.ok or got.value != want or got.value != getattr(o5.value, comp):
                        mon.viol(f"cross_country_reassembly_component_wrong:{comp}", {**w, "other": other, "iban": t2}, want, got.brief())
                if getattr(o4.value.bban, "country_code", None) != other:
                    mon.viol("cross_country_reassembly_keeps_foreign_bban_country", {**w, "other": other}, other, getattr(o4.value.bban, "country_code", None))
            # the IBAN's own BBAN object handed to the BBAN constructor of another country (and the IBAN object to the
            # IBAN constructor): new objects of the requested country; the decomposed IBAN stays what it was
            for other in (compat.get(cc, [])[:1] or [c_ for c_ in ("DE", "AT") if c_ != cc][:1]):
                o6 = observe(S.BBAN, other, ib.bban)
                if o6.ok and (o6.value.country_code != other or str(o6.value) != bban):
                    mon.viol("bban_constructor_result_not_of_requested_country", {**w, "other": other}, [other, bban], [o6.value.country_code, str(o6.value)])
            if ib.bban.country_code != cc or str(ib.bban) != bban:
                mon.viol("decomposed_iban_changed_after_use_as_constructor_argument:BBAN", w, [s, cc], [str(ib), getattr(ib.bban, "country_code", None)])
            # validation asked of the finished object again - with the national check too, which may well fail -
            # leaves the object as it was
            for f_ in (lambda: ib.validate(validate_bban=True), lambda: ib.bban.validate_national_checksum(), lambda: ib.validate(), lambda: ib.is_valid):
                observe(f_)
            if ib.bban.country_code != cc or str(ib.bban) != bban or str(ib) != s:
                mon.viol("decomposed_iban_changed_by_a_later_validation", w, [s, cc], [str(ib), getattr(ib.bban, "country_code", None)])
            bban_id = id(ib.bban)
            observe(S.IBAN, ib)
            observe(S.IBAN, ib, allow_invalid=True)
            mon.tally("decomposition_reread_after_reuse_as_argument")
            if str(ib) != s or ib.bban.country_code != cc or str(ib.bban) != bban or id(ib.bban) != bban_id:
                mon.viol("decomposed_iban_changed_after_use_as_constructor_argument:IBAN", w, [s, cc], [str(ib), getattr(ib.bban, "country_code", None), "bban object replaced" if id(ib.bban) != bban_id else ""])
            for comp in COMPONENTS:
                want = bban[pos[comp][0] : pos[comp][1]] if comp in pos else ""
                gi = observe(getattr, ib, comp)
                if not gi.ok or gi.value != want:
                    mon.viol(f"component_changed_after_use_as_constructor_argument:{comp}", w, want, gi.brief())
            if len(ib) != len(s) or soft_attr(ib, "length", len(s)) != len(s) or soft_attr(ib, "compact", s) != s:
                mon.viol("length_or_compact_wrong", w, len(s), [soft_attr(ib, "length", len(s)), soft_attr(ib, "compact", s)])
        # short purely alphabetic fields (currency codes and the like): every possible value, because accessors
        # that "interpret" a field do so for specific values
        cls_ = R.position_classes(spec["bban_spec"]) or []
        for comp, (s_, e_) in pos.items():
            if e_ - s_ <= 3 and all(k == R.UPPER for k in cls_[s_:e_]) and comp != "national_checksum_digits":
                base_b = texts[0][4:]
                import itertools  # noqa: PLC0415

                for tup in itertools.product(R.UPPER, repeat=e_ - s_):
                    v = "".join(tup)
                    o7 = observe(S.IBAN, R.make_iban(cc, base_b[:s_] + v + base_b[e_:]))
                    mon.ev()
                    if not o7.ok:
                        mon.viol("reference_valid_iban_rejected", {"iban": R.make_iban(cc, base_b[:s_] + v + base_b[e_:])}, "ACCEPT", o7.brief())
                    elif getattr(o7.value, comp) != v or getattr(o7.value.bban, comp) != v:
                        mon.viol(f"component_not_published_slice:{comp}:specific_value", {"iban": str(o7.value), "component": comp}, v, getattr(o7.value, comp))
                mon.tally("short_alpha_fields_enumerated")
        # the same decomposition after the country has been used for generation (also for countries that
        # publish no positions: their components stay empty)
        from random import Random  # noqa: PLC0415

        for f in (lambda: S.IBAN.generate(cc, bank_code="12", account_code="345"), lambda: S.BBAN.from_components(cc, bank_code="1", account_code="2", branch_code="3"),
                  lambda: S.IBAN.random(cc, random=Random(7)), lambda: S.BBAN.random(cc, random=Random(8), use_registry=False)):
            observe(f)
        o9 = observe(S.IBAN, texts[0])
        if o9.ok:
            for comp in COMPONENTS:
                want = texts[0][4:][pos[comp][0] : pos[comp][1]] if comp in pos else ""
                g9 = observe(getattr, o9.value, comp)
                if not g9.ok or g9.value != want:
                    mon.viol(f"component_changes_after_generation_calls:{comp}" + ("" if comp in pos else ":absent_field"), {"iban": texts[0], "component": comp}, want, g9.brief())
            mon.tally("decomposition_rechecked_after_generation")
        mon.sample({"iban": text, "published_positions": {k: list(v) for k, v in pos.items()}})
        mon.tally("countries")


def run_bic(shard, mon, S):
    rng = env.rng("C11", "bic")
    bics = sorted({e["bic"] for e in data.banks() if e.get("bic")})
    extra = [rand_bic(rng) for _ in range(SIZES[shard["tier"]]["bics"])]
    for text in bics + extra:
        o = observe(S.BIC, text)
        mon.ev()
        if not o.ok:
            if R.expect_bic(text).verdict == R.ACCEPT:
                mon.viol("reference_valid_bic_rejected", {"bic": text}, "ACCEPT", o.brief())
            continue
        b = o.value
        s = str(b)
        mon.distinct(("bic", s))
        parts = [b.bank_code, b.country_code, b.location_code, b.branch_code]
        if "".join(parts) != s or [len(p) for p in parts[:3]] != [4, 2, 2] or len(parts[3]) not in (0, 3):
            mon.viol("bic_parts_do_not_concatenate", {"bic": s}, s, parts)
        if parts != [s[0:4], s[4:6], s[6:8], s[8:11]]:
            mon.viol("bic_part_wrong_slice", {"bic": s}, [s[0:4], s[4:6], s[6:8], s[8:11]], parts)
        mon.tally("bics")
    mon.sample({"bic": bics[0] if bics else extra[0]})


def run_shard(shard, out_base):
    if shard.get("kind") == "contracts":
        from vf import suite  # noqa: PLC0415

        return suite.run_contract_shard("C11", out_base)
    mon = Mon("C11")
    S = judge.lib()
    if shard["kind"] == "xproc":
        run_xproc(shard, mon, S)
        return mon.result(out_base)
    (run_iban if shard["kind"] == "iban" else run_bic)(shard, mon, S)
    return mon.result(out_base)


def run_xproc(shard, mon, S):
    """Objects that were built, hashed and compared in another process (other string-hash seed) and arrived here
    by pickle decompose and re-assemble like home-grown ones."""
    import os  # noqa: PLC0415
    import pickle  # noqa: PLC0415
    import subprocess  # noqa: PLC0415
    import tempfile  # noqa: PLC0415

    from vf.props import c16  # noqa: PLC0415

    c16.ensure_user_classes(S)
    fd, path = tempfile.mkstemp(prefix="vf-c11-", suffix=".pkl")
    os.close(fd)
    try:
        e = dict(os.environ, PYTHONHASHSEED="4711", PYTHONPATH=env.VERIF, PYTHONDONTWRITEBYTECODE="1")
        p = subprocess.run([env.PY, "-c", c16.WRITER, path, str(pickle.HIGHEST_PROTOCOL)], env=e, capture_output=True, text=True, timeout=300)
        if p.returncode != 0:
            mon.inconclusive.append("writer process failed: " + p.stderr[-200:])
            return
        with open(path, "rb") as fp:
            doc = pickle.load(fp)
    finally:
        os.unlink(path)
    for obj, s in zip(doc["objs"], doc["strs"]):
        tn = type(obj).__name__
        mon.ev()
        mon.distinct(("xproc", tn, s))
        w = {"object": [tn, s], "from_process_with_hash_seed": 4711}
        if tn in ("IBAN", "UserIBAN") and observe(lambda: obj.is_valid).value:
            for name, y in (("from_bban", observe(S.IBAN.from_bban, obj.country_code, obj.bban)), ("from_bban_text", observe(S.IBAN.from_bban, obj.country_code, str(obj.bban))), ("reparse", observe(S.IBAN, s))):
                if not y.ok or not (y.value == obj) or not (obj == y.value) or y.value != obj or str(y.value) != s:
                    mon.viol(f"reassembly_not_equal_to_object_from_other_process:{name}", w, s, y.brief())
            if obj.country_code + obj.checksum_digits + str(obj.bban) != s:
                mon.viol("iban_parts_do_not_concatenate", w, s, [obj.country_code, obj.checksum_digits, str(obj.bban)])
            mon.tally("objects_from_other_process_reassembled")
        elif tn in ("BIC", "UserBIC") and observe(lambda: obj.is_valid).value:
            parts = obj.bank_code + obj.country_code + obj.location_code + (obj.branch_code or "")
            y = observe(S.BIC, parts)
            if parts != s or not y.ok or not (y.value == obj) or not (obj == y.value):
                mon.viol("reassembly_not_equal_to_object_from_other_process:bic", w, s, [parts, y.brief()])
            mon.tally("objects_from_other_process_reassembled")
    mon.sample({"cross_process": "writer PYTHONHASHSEED=4711", "objects": len(doc["objs"])})


def finish(m, tier, seed):
    n = len(data.countries())
    if m["tallies"].get("countries", 0) < n:
        m["inconclusive"].append("not every country decomposed")
    return {"countries": n}
