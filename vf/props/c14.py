"""C14 — concurrent use gives every caller the answer it would get alone."""
from __future__ import annotations

import itertools
import json
import os
import random
import sys
import tempfile
import threading
import time

from vf import calls, env, judge, pool
from vf.lib import Mon, h64

META = {
    "level": "exploration",
    "rule": (
        "pairs (and triples) of calls routed to the same shared object with different solo behaviour (per German "
        "method: accounts from all reference-forced behaviour classes; IBAN-level calls of two banks with the same "
        "method; national algorithms; generation, seeded random, look-ups, BIC validation) are run under a "
        "deterministic scheduler built on sys.monitoring: every single preemption point of each pair at source-line "
        "granularity (thorough: bytecode-instruction granularity, sampled two-preemption and three-thread schedules), "
        "plus free-running stress threads with a 1 microsecond switch interval (thorough: random yield injection) and "
        "cold-start runs where N threads make their first library calls simultaneously; oracle = the call's solo "
        "outcome (computed before and after, and in a separate process); distinct = distinct (pair, schedule) resp. "
        "(thread, call) observations"
    ),
    "assumptions": [
        "interleavings inside a single bytecode's C implementation and with 4+ threads are reached only by the stress runner",
        "a worker that makes no step for the grace period is treated as blocked on a lock (token handed back, schedule tagged degraded, no verdict from the time-out)",
    ],
    "prelude": False,
    "threads_copy": False,
    "min_distinct": {"quick": 20000, "thorough": 400000},
    "shard_timeout": {"quick": 900, "thorough": 7200},
    "reach": False,
}
SIZES = {
    "quick": dict(pairs_per_group=8, explore_shards=14, gran="line", two=0, three=0, stress_threads=8, stress_rounds=30, cold=3, budget=4000),
    "thorough": dict(pairs_per_group=30, explore_shards=14, gran="instr", two=150, three=40, stress_threads=16, stress_rounds=200, cold=24, budget=60000),
}
_POOL = {}


def the_pool(tier, path=None):
    if tier not in _POOL:
        if path and os.path.exists(path):
            with open(path, encoding="utf-8") as fp:
                _POOL[tier] = json.load(fp)
        else:
            _POOL[tier] = pool.build(env.rng("C14", "pool"), "quick" if tier == "quick" else "thorough")
    return _POOL[tier]


def groups_of(p):
    g: dict = {}
    for i, d in enumerate(p):
        if d.get("grp"):
            g.setdefault(d["grp"], []).append(i)
    return g


def _class_cover(p, method, cand):
    from vf.ref import germany as GE  # noqa: PLC0415

    def cls(i):
        a = (p[i].get("components") or [""])[0]
        if len(a) != 10 or not a.isdigit() or method not in GE.METHODS:
            return ("odd",)
        r = GE.facts(method, a).get("r")
        return (GE.verdict(method, a), "r0" if r == 0 else "r1" if r == 1 else "rx", a[8] == a[9])

    first, seen = [], set()
    for a, b in cand:
        k = (cls(a), cls(b))
        if k[0] != k[1] and k not in seen:
            seen.add(k)
            first.append((a, b))
    # combinations involving remainder 1 and wrong digits first (the stateful methods branch on exactly that)
    first.sort(key=lambda ab: 0 if "r1" in (cls(ab[0])[1:2] + cls(ab[1])[1:2]) else 1)
    return first


def pair_plan(p, tier, rng):
    """Ordered pairs (i, j) of descriptor indexes that share an object."""
    sz = SIZES[tier]
    out = []
    g = groups_of(p)
    for name in sorted(g):
        ids = g[name]
        fam = name.split(":")[0]
        if fam in ("multi", "shared"):
            cand = [(a, b) for a in ids for b in ids if a != b]
            rng.shuffle(cand)
            if fam == "shared":
                # the two validations under different flags against each other always come first (both orders)
                cand.sort(key=lambda ab: 0 if p[ab[0]]["fn"] == p[ab[1]]["fn"] == "shared_validate" else 1)
            out += [(name, a, b) for a, b in cand[: (3 if fam == "multi" else 2) if tier == "quick" else 12]]
        elif fam in ("algo", "api", "nat", "natb"):
            cand = [(a, b) for a in ids for b in ids if a != b]
            rng.shuffle(cand)
            if name.startswith("algo:DE:"):
                # pairs whose two calls differ in what the method remembers between its steps come first: one pair
                # per ordered combination of (verdict, remainder class 0 / 1 / other, equal last two digits)
                cand = _class_cover(p, name[8:], cand) + cand
                cand = list(dict.fromkeys(cand))
            out += [(name, a, b) for a, b in cand[: sz["pairs_per_group"] if fam == "algo" else sz["pairs_per_group"] // 2 if fam == "natb" else max(2, sz["pairs_per_group"] // 4)]]
        elif fam in ("listed", "code", "seed", "gen", "text", "bbanvalue"):
            cand = [(a, b) for a in ids for b in ids if a != b]
            rng.shuffle(cand)
            out += [(name, a, b) for a, b in cand[: 1 if tier == "quick" else 3]]
    # cross-family pairs: lookups / generation / random / BIC validation against each other
    misc = [i for i, d in enumerate(p) if d["fn"] in ("from_bank_code", "candidates", "bic", "bic_lookup", "generate", "random", "iban_lookup")]
    for _ in range(20 if tier == "quick" else 200):
        a, b = rng.sample(misc, 2)
        out.append(("misc", a, b))
    # seeded draws against each other (each caller brings its own generator)
    draws = [i for i, d in enumerate(p) if d["fn"] in ("random", "bban_random") and d.get("seed")]
    for _ in range(10 if tier == "quick" else 120):
        a, b = rng.sample(draws, 2)
        out.append(("shared-draws", a, b))
    return out


def plan(tier, seed):
    sz = SIZES[tier]
    p = the_pool(tier)
    d = os.path.join(env.VERIF, ".work")
    os.makedirs(d, exist_ok=True)
    fd, pf = tempfile.mkstemp(prefix="pool14-", suffix=".json", dir=d)
    with os.fdopen(fd, "w", encoding="utf-8") as fp:
        json.dump(p, fp)
    rng = env.rng("C14", "pairs")
    pairs = pair_plan(p, tier, rng)
    n = sz["explore_shards"]
    sh = []
    for i in range(n):
        sh.append({"kind": "explore", "pairs": pairs[i::n], "gran": "line", "tier": tier, "_name": f"explore-line-{i}"})
    if tier == "quick":
        # a slice at instruction granularity in the quick tier as well (the granularity the property names)
        algo_pairs = [x for x in pairs if x[0].startswith("algo:")]
        sel = algo_pairs[:: max(1, len(algo_pairs) // 60)]
        for i in range(4):
            sh.append({"kind": "explore", "pairs": sel[i::4], "gran": "instr", "tier": tier, "_name": f"explore-instr-{i}"})
    else:
        for i in range(n):
            sh.append({"kind": "explore", "pairs": pairs[i::n], "gran": "instr", "tier": tier, "_name": f"explore-instr-{i}"})
    for i in range(2 if tier == "quick" else 6):
        sh.append({"kind": "stress", "part": i, "tier": tier, "inject": tier == "thorough" and i % 2 == 1, "_name": f"stress-{i}"})
    types = [("valid", "burst"), ("generate", "burst"), ("twin", "burst"), ("valid", "valid"), ("generate", "valid"), ("valid", "generate"), ("generate", "generate"), ("twin", "valid"), ("valid", "twin"), ("valid", "typo"), ("typo", "valid")]
    nf = 11
    for i in range(nf):
        sh.append({"kind": "fresh", "type_pairs": types[i::nf], "tier": tier, "_name": f"fresh-explore-{i}"})
    sh.append({"kind": "solo", "tier": tier, "_name": "solo"})
    for i in range(sz["cold"]):
        sh.append({"kind": "cold", "part": i, "tier": tier, "_name": f"cold-{i}"})
    trials = coldsched_trials(p, tier) + coldfirst_trials(p, tier)
    per = 6 if tier == "quick" else 12
    for i in range(0, len(trials), per):
        sh.append({"kind": "coldsched", "trials": trials[i : i + per], "tier": tier, "_name": f"coldsched-{i // per}"})
    for i in range(1 if tier == "quick" else 4):
        sh.append({"kind": "afterfail", "part": i, "tier": tier, "_name": f"afterfail-{i}"})
    for i in range(2 if tier == "quick" else 16):
        sh.append({"kind": "twopoint", "part": i, "tier": tier, "_name": f"twopoint-{i}"})
    cf = coldfocus_trials(p, tier)
    per = 2 if tier == "quick" else 8
    for i in range(0, len(cf), per):
        sh.append({"kind": "coldfocus", "trials": cf[i : i + per], "tier": tier, "_name": f"coldfocus-{i // per}"})
    # first use of the third-party country database (loaded lazily by pycountry, inside one line of the package):
    # the first caller is preempted at its K-th step *inside pycountry*
    rngc = env.rng("C14", "thirdparty")
    cids = [i for i, d in enumerate(p) if d["fn"] in ("bic", "bic_country", "iban_country", "from_bank_code", "bic_lookup")]
    tks = [3, 10, 40, 150, 400, 900, 1500, 2200, 3000] if tier == "quick" else sorted(set(range(1, 3200, 40)))
    tp = [(k_, [tuple(rngc.sample(cids, 2))]) for k_ in tks]
    for i in range(0, len(tp), 3):
        sh.append({"kind": "coldfocus", "trials": tp[i : i + 3], "focus": "/pycountry/", "tier": tier, "_name": f"coldfocus-thirdparty-{i // 3}"})
    for s_ in sh:
        s_["pool_file"] = pf
    sh[0]["_cleanup"] = [pf]
    return sh


def solo_digests(S, p, ids):
    return {i: calls.digest(calls.execute(S, p[i])) for i in ids}


def run_explore(shard, mon, S, p):
    from vf.mon.sched import Scheduler  # noqa: PLC0415

    sz = SIZES[shard["tier"]]
    gran = shard["gran"]
    if shard["_name"].endswith("-0") and gran == "line":
        # algorithms that the library registers but the references do not know (new countries / methods): they
        # are still explored against their own solo outcomes
        try:
            from schwifty.checksum import algorithms  # noqa: PLC0415
            from vf import gen as G0  # noqa: PLC0415
            from vf.ref import data as D0, germany as GE0, iban as R0, lookup as L0, national as N0  # noqa: PLC0415

            table0 = D0.countries()
            rng0 = env.rng("C14", "unknown-algorithms")
            extra = []
            for key in sorted(algorithms):
                cc0, _, name0 = key.partition(":")
                if name0 == "default" and cc0 in table0 and cc0 not in N0.LENGTHS and cc0 != "DE":
                    ds = [{"fn": "iban", "text": R0.make_iban(cc0, G0.random_bban(table0[cc0], rng0)), "kw": {"validate_bban": True}, "grp": f"nat-unknown:{cc0}"} for _ in range(2)]
                    # texts the library itself considers nationally valid (drawn by the library, kept if they pass)
                    from random import Random as Rnd0  # noqa: PLC0415

                    for k0 in range(40):
                        try:
                            t0 = str(S.IBAN.random(cc0, random=Rnd0(f"unk/{cc0}/{k0}"), use_registry=False))
                            S.IBAN(t0, validate_bban=True)
                        except Exception:  # noqa: BLE001
                            continue
                        ds.append({"fn": "iban", "text": t0, "kw": {"validate_bban": True}, "grp": f"nat-unknown:{cc0}"})
                        if len(ds) >= 5:
                            break
                    ds.append({"fn": "random", "country": cc0, "seed": "u1", "use_registry": False, "kw": {}, "grp": f"nat-unknown:{cc0}"})
                    extra.append(ds)
                elif cc0 == "DE" and name0 not in GE0.METHODS and name0 != "default":
                    ds = [{"fn": "algo", "key": key, "components": ["".join(rng0.choice(R0.DIGITS) for _ in range(10))], "grp": f"algo-unknown:{key}"} for _ in range(3)]
                    extra.append(ds)
            shard = dict(shard)
            shard["pairs"] = list(shard["pairs"])
            for ds in extra:
                base_i = len(p)
                p.extend(ds)
                idxs = list(range(base_i, base_i + len(ds)))
                allp = [("algo-unknown", a, b) for a in reversed(idxs) for b in reversed(idxs) if a != b]
                shard["pairs"] = allp[:8] + shard["pairs"]
                mon.tally("algorithms_unknown_to_reference_explored")
        except Exception as e:  # noqa: BLE001
            mon.notes["unknown_algorithms"] = repr(e)[:200]
    ids = sorted({i for _, a, b in shard["pairs"] for i in (a, b)})
    if shard["_name"][-1] in "13579":
        # every second explore shard works in a process that has been used before: draws and generation for
        # every country (those without published positions included), look-ups, failing calls
        from random import Random as _R  # noqa: PLC0415

        from vf.ref import data as _D  # noqa: PLC0415

        for cc_ in sorted(_D.countries()):
            for f_ in (lambda: S.IBAN.random(cc_, random=_R(7)), lambda: S.IBAN.random(cc_, random=_R(8), use_registry=False), lambda: S.IBAN.generate(cc_, bank_code="1", account_code="1")):
                try:
                    f_()
                except Exception:  # noqa: BLE001, S110
                    pass
        for d_ in [x for x in p if x["fn"] in ("registry_fail", "from_bank_code", "bban")][:40]:
            calls.execute(S, d_)
        mon.tally("explore_shards_in_a_used_process")
    before = solo_digests(S, p, ids)
    sched = Scheduler(env.PKG, gran)
    sched.install()
    rng = env.rng("C14", shard["_name"])
    traces = set()
    budget = sz["budget"] if gran == "line" else max(2000, sz["budget"] // 5)
    def prio(x):
        return 0 if x[0].startswith(("multi", "algo-unknown", "shared:", "natb")) else 1 if x[0].startswith("algo") else 2 if x[0].startswith("shared") else 3 if x[0].startswith(("api", "nat")) else 4

    classes: dict = {}
    seen_in_group: dict = {}
    ranked = []
    for pr_ in shard["pairs"]:
        seen_in_group[pr_[0]] = seen_in_group.get(pr_[0], 0) + 1
        ranked.append((seen_in_group[pr_[0]], pr_))
    # within a class: the first pair of every group, then the second of every group, ... (a group's first pairs
    # are the ones chosen to differ in behaviour class)
    for _, pr_ in sorted(ranked, key=lambda t: t[0]):
        classes.setdefault(prio(pr_), []).append(pr_)
    # class 0 first; the other classes take turns (3 : 1 : 1 : 1) so that a tight budget thins all of them out
    # instead of starving the last ones
    # class 0 is always explored; the other classes get shares of the schedule budget (what a class leaves unused
    # goes to the next one, the long generic pairs come last)
    order = [(0, x) for x in classes.pop(0, [])]
    for c_ in (1, 3, 2, 4):
        order += [(c_, x) for x in classes.pop(c_, [])]
    share = {1: 0.62, 3: 0.12, 2: 0.08, 4: 0.18}
    spent: dict = {}
    ceiling: dict = {}
    acc = 0.0
    for c_ in (1, 3, 2, 4):
        acc += share[c_]
        ceiling[c_] = acc * budget  # cumulative: unused budget of earlier classes flows on
    try:
        for cls_, (name, a, b) in order:
            if cls_ and 0 not in spent:
                spent[0] = mon.evaluations  # what the always-explored class used does not count against the shares
            if not cls_ and mon.evaluations >= (0.45 if gran == "line" else 0.2) * budget:
                mon.tally("pairs_skipped_budget")  # even the always-first class may not take more than 45 % of a shard
                continue
            if cls_ and mon.evaluations >= ceiling[cls_] + spent.get(0, 0):
                mon.tally("pairs_skipped_budget")
                continue
            thunks = [lambda a=a: calls.execute(S, p[a]), lambda b=b: calls.execute(S, p[b])]
            want = [before[a], before[b]]
            base = sched.run(thunks, first=0, trace=False)
            na, nb = base["steps"]
            mon.tally(f"steps_{gran}", na + nb)

            def judge_run(r, desc):
                mon.ev()
                if r.get("trace") is not None:
                    traces.add(h64(repr((a, b, r["trace"]))))
                mon.tally("schedules_" + gran)
                if r["degraded"]:
                    mon.tally("degraded")
                if r["hung"]:
                    mon.inconclusive.append(f"schedule hung: {desc}")
                    return
                got = [calls.digest(x) for x in r["results"]]
                for w_, (g_, e_) in enumerate(zip(got, want)):
                    if g_ != e_:
                        d = p[(a, b)[w_]]
                        mon.viol(
                            f"concurrent_outcome_differs_from_solo:{d['fn']}:{gran}",
                            {"pair": [p[a], p[b]], "schedule": desc, "granularity": gran, "worker": w_},
                            "solo outcome", json.dumps(r["results"][w_], default=str)[:300],
                        )

            judge_run(base, {"first": 0, "preempt": []})
            mon.distinct((a, b, gran, 0, ()))
            cap = 200 if shard["tier"] == "quick" else 3000
            # (quick tier: line granularity; thorough tier: the instruction-granularity shards - there the line shards
            # take every line of these calls)
            focused = name.startswith(("natb", "nat:", "api:")) and ((gran == "line" and shard["tier"] == "quick") or (gran == "instr" and shard["tier"] != "quick"))
            if focused:
                # calls that reach a checksum algorithm through BBAN / IBAN objects (hundreds of lines each): in the
                # quick tier every preemption point *inside the checksum modules* is taken, the others are left to the
                # thorough tier (the look-up and parsing code on the way is shared with the pair families above)
                fb_ = sched.run(thunks, first=0, focus="/checksum/")
                for first, n_f in ((0, fb_["focus_steps"][0]), (1, fb_["focus_steps"][1])):
                    for k in range(1, n_f + 1):
                        r = sched.run(thunks, first=first, focus="/checksum/", preempt_focus={(first, k)}, trace=True)
                        judge_run(r, {"first": first, "preempt_at_step_inside_checksum_modules": [[first, k]]})
                        mon.distinct((a, b, gran, first, ("focus", k)))
                mon.tally("pairs_explored_inside_checksum_modules_only")
                mon.tally("pairs_explored_" + gran)
                continue
            for first, n_first in ((0, na), (1, nb)):
                ks = range(1, n_first + 1)
                if n_first > cap:
                    # very long calls: evenly spaced preemption points plus a seeded random sample
                    ks = sorted(set(range(1, n_first + 1, max(1, n_first // (cap // 2)))) | {rng.randint(1, n_first) for _ in range(cap // 2)})
                    mon.tally("pairs_with_sampled_preemption_points")
                for k in ks:
                    r = sched.run(thunks, first=first, preempt={(first, k)}, trace=True)
                    judge_run(r, {"first": first, "preempt": [[first, k]]})
                    mon.distinct((a, b, gran, first, (k,)))
            if gran == "line" and sz["two"]:
                for _ in range(sz["two"]):
                    first = rng.randrange(2)
                    k1 = rng.randint(1, max(1, (na, nb)[first]))
                    k2 = rng.randint(1, max(1, (nb, na)[first]))
                    pre = {(first, k1), (1 - first, k2)}
                    r = sched.run(thunks, first=first, preempt=pre)
                    judge_run(r, {"first": first, "preempt": sorted(map(list, pre))})
                    mon.distinct((a, b, gran, first, tuple(sorted(pre))))
                    mon.tally("two_preemption_schedules")
            mon.tally("pairs_explored_" + gran)
        if gran == "line" and sz["three"]:
            trip_src = [x for x in shard["pairs"] if x[0].startswith(("algo", "api"))]
            for _ in range(sz["three"] * 20):
                if len(trip_src) < 2:
                    break
                (n1, a, b), (n2, c, _) = rng.sample(trip_src, 2)
                th = [lambda a=a: calls.execute(S, p[a]), lambda b=b: calls.execute(S, p[b]), lambda c=c: calls.execute(S, p[c])]
                pre = {(rng.randrange(3), rng.randint(1, 30)) for _ in range(rng.randint(1, 4))}
                r = sched.run(th, first=rng.randrange(3), preempt=pre)
                mon.ev()
                mon.tally("three_thread_schedules")
                mon.distinct((a, b, c, tuple(sorted(pre))))
                got = [calls.digest(x) for x in r["results"]]
                wants = [before[a], before[b], before.get(c) or calls.digest(calls.execute(S, p[c]))]
                if not r["hung"] and got != wants:
                    mon.viol("concurrent_outcome_differs_from_solo:three_threads", {"calls": [p[a], p[b], p[c]], "preempt": sorted(map(list, pre))}, "solo outcomes", [json.dumps(x, default=str)[:120] for x in r["results"]])
    finally:
        sched.uninstall()
    after = solo_digests(S, p, ids)
    mon.tally("distinct_interleavings_" + gran, len(traces))
    if after != before:
        mon.inconclusive.append("solo outcomes before and after the exploration differ (see C15)")
    if shard["pairs"]:
        name, a, b = shard["pairs"][0]
        mon.sample({"pair": [p[a], p[b]], "granularity": gran, "schedule": {"first": 0, "preempt": [[0, 7]]}})


def run_stress(shard, mon, S, p):
    sz = SIZES[shard["tier"]]
    rng = env.rng("C14", "stress", shard["part"])
    fam = [i for i, d in enumerate(p) if d["fn"] in ("algo", "iban", "iban_validate", "from_bank_code", "candidates", "generate", "random", "bic", "iban_lookup", "bban")]
    ids = rng.sample(fam, min(len(fam), 240))
    # seeded draws (own generator per call) for every kind of country, the ones without published positions included
    ids += [i for i, d in enumerate(p) if d["fn"] in ("random", "bban_random") and d.get("seed") == "s0"]
    # make sure stateful German methods are densely represented
    ids += [i for i, d in enumerate(p) if d["fn"] == "algo" and d["key"] in ("DE:02", "DE:16", "DE:23", "DE:25", "DE:04", "DE:14", "DE:07")]
    want = solo_digests(S, p, ids)
    n_threads = sz["stress_threads"]
    bad: list = []
    counts = [0] * n_threads
    old = sys.getswitchinterval()
    inject = bool(shard.get("inject"))
    tool = None
    if inject:
        m = sys.monitoring
        tool = 5
        m.use_tool_id(tool, "vf-yield")
        lrng = random.Random(env.seed() * 7 + shard["part"])
        pkg = os.path.realpath(env.PKG) + os.sep

        def cb(code, line):
            if not os.path.realpath(code.co_filename).startswith(pkg):
                return m.DISABLE
            if lrng.random() < 0.02:
                time.sleep(0)
            return None

        m.register_callback(tool, m.events.LINE, cb)
        m.set_events(tool, m.events.LINE)
    sys.setswitchinterval(1e-6)
    start = threading.Barrier(n_threads)

    def body(t):
        r = random.Random(f"{env.seed()}/{shard['part']}/{t}")
        order = list(ids)
        start.wait()
        for _ in range(sz["stress_rounds"] // (8 if inject else 1)):
            r.shuffle(order)
            for i in order[: 60]:
                out = calls.execute(S, p[i])
                counts[t] += 1
                if calls.digest(out) != want[i]:
                    bad.append((t, i, out))

    threads = [threading.Thread(target=body, args=(t,), daemon=True) for t in range(n_threads)]
    t0 = time.time()
    for t in threads:
        t.start()
    for t in threads:
        t.join(600)
    sys.setswitchinterval(old)
    if tool is not None:
        sys.monitoring.set_events(tool, 0)
        sys.monitoring.free_tool_id(tool)
    if any(t.is_alive() for t in threads):
        mon.inconclusive.append("stress threads did not finish")
    total = sum(counts)
    mon.ev(total)
    for t in range(n_threads):
        for k in range(0, counts[t], 50):
            mon.distinct(("stress", shard["part"], t, k))
    mon.tally("stress_calls_compared", total)
    mon.tally("stress_threads", n_threads)
    mon.notes["stress"] = {"threads": n_threads, "calls": total, "switch_interval": 1e-6, "yield_injection": inject, "wall_s": round(time.time() - t0, 2)}
    for t, i, out in bad[:5]:
        d = p[i]
        mon.viol(f"concurrent_outcome_differs_from_solo:stress:{d['fn']}", {"descriptor": d, "thread": t, "threads": n_threads}, "solo outcome", json.dumps(out, default=str)[:300])
    after = solo_digests(S, p, ids)
    if after != want:
        mon.inconclusive.append("solo outcomes before and after the stress run differ")
    fresh_stress(shard, mon, S)
    mon.sample({"stress": mon.notes["stress"], "example_call": p[ids[0]]})


def run_fresh_explore(shard, mon, S, p):
    """Single-preemption exploration of pairs whose inputs are new at every schedule (so that bounded caches
    keep inserting and evicting); oracle = the reference models (R-IBAN / R-GEN), not a solo run."""
    from vf import gen as G_  # noqa: PLC0415
    from vf.mon.sched import Scheduler  # noqa: PLC0415
    from vf.ref import data as D_  # noqa: PLC0415
    from vf.ref import generate as RG_  # noqa: PLC0415
    from vf.ref import iban as R_  # noqa: PLC0415

    table = D_.countries()
    cs = sorted(table)
    rng = env.rng("C14", shard["_name"])
    gen_cs = [c for c in ("BE", "DE", "PT", "NL", "SI", "FR") if c in table]

    last_valid = [None]

    def make(kind):
        """(thunk, checker) for one fresh input."""
        if kind == "valid":
            cc = rng.choice(cs)
            t = R_.make_iban(cc, G_.random_bban(table[cc], rng))
            last_valid[0] = t
            return (lambda: calls.execute(S, {"fn": "iban", "text": t, "kw": {}})), (lambda out: out[0] == "ok" and out[1]["str"] == t), t
        if kind == "twin":
            cc = rng.choice(cs)
            t = R_.make_iban(cc, G_.random_bban(table[cc], rng))
            d = int(t[2:4])
            t = t[:2] + f"{rng.choice([x for x in range(100) if x != d]):02d}" + t[4:]
            return (lambda: calls.execute(S, {"fn": "iban_is_valid", "text": t})), (lambda out: out == ["ok", False]), t
        if kind == "typo":
            # a typing error inside the BBAN of the valid IBAN made last (the partner of this schedule)
            v = last_valid[0] or R_.make_iban("DE", G_.random_bban(table["DE"], rng))
            pos_ = rng.randrange(4, len(v))
            pool_ = R_.DIGITS if v[pos_] in R_.DIGITS else R_.UPPER
            t = v[:pos_] + rng.choice([c_ for c_ in pool_ if c_ != v[pos_]]) + v[pos_ + 1 :]
            return (lambda: calls.execute(S, {"fn": "iban_is_valid", "text": t})), (lambda out: out == ["ok", False]), t
        if kind == "burst":
            texts = []
            for _ in range(170):
                c2 = rng.choice(cs)
                texts.append(R_.make_iban(c2, G_.random_bban(table[c2], rng)))

            def burst():
                bad_ = [t_ for t_ in texts if calls.execute(S, {"fn": "iban_is_valid", "text": t_}) != ["ok", True]]
                return ["ok", bad_]

            return burst, (lambda out: out == ["ok", []]), {"burst_of_fresh_valid_ibans": len(texts)}
        cc = rng.choice(gen_cs)
        pos = D_.positions(table[cc])
        bank = "".join(rng.choice(R_.DIGITS) for _ in range(pos["bank_code"][1] - pos["bank_code"][0])) if cc != "NL" else "".join(rng.choice(R_.UPPER) for _ in range(4))
        acct = "".join(rng.choice(R_.DIGITS) for _ in range(rng.randint(1, pos["account_code"][1] - pos["account_code"][0])))
        exp = RG_.expect_generate(cc, bank, acct, "", table)
        d = {"fn": "generate", "country": cc, "bank": bank, "account": acct}
        if exp.kind == "return":
            return (lambda: calls.execute(S, d)), (lambda out: out[0] == "ok" and out[1]["str"] == exp.iban), d
        return (lambda: calls.execute(S, d)), (lambda out: True), d

    sched = Scheduler(env.PKG, "line")
    sched.install()
    reps = 2 if shard["tier"] == "quick" else 40
    try:
        for ka, kb in shard["type_pairs"]:
            for _ in range(1 if (kb == "burst" and shard["tier"] == "quick") else reps):
                ta, ca, ia = make(ka)
                tb, cb, ib = make(kb)
                base = sched.run([ta, tb], first=0)
                na, nb = base["steps"]
                for first, n_first in ((0, na),) if kb == "burst" else ((0, na), (1, nb)):
                    for k in range(1, n_first + 1):
                        for _f in range(rng.randrange(3)):
                            make("valid")[0]()  # filler: moves cache fill levels between schedules
                        if ka == "typo":
                            tb, cb, ib = make(kb)  # the valid one first: the typo is derived from it
                            ta, ca, ia = make(ka)
                        else:
                            ta, ca, ia = make(ka)
                            tb, cb, ib = make(kb)
                        r = sched.run([ta, tb], first=first, preempt={(first, k)})
                        mon.ev()
                        mon.tally("schedules_fresh_inputs")
                        if "typo" in (ka, kb):
                            # the very next validation of the mistyped text, alone: still an error
                            again = (ta if ka == "typo" else tb)()
                            if again != ["ok", False]:
                                mon.viol("concurrent_outcome_differs_from_reference:fresh_inputs:typo_presented_again_after_the_schedule", {"input": ia if ka == "typo" else ib, "valid_partner": ib if ka == "typo" else ia, "schedule": {"first": first, "preempt": [[first, k]]}},
                                         ["ok", False], json.dumps(again, default=str)[:300])
                        mon.distinct(("fresh-explore", shard["_name"], ka, kb, first, k, _))
                        if r["hung"]:
                            mon.inconclusive.append("fresh-input schedule hung")
                            continue
                        for w_, (out, chk, inp) in enumerate(zip(r["results"], (ca, cb), (ia, ib))):
                            if not chk(out):
                                mon.viol("concurrent_outcome_differs_from_reference:fresh_inputs:" + (ka, kb)[w_], {"input": inp, "other_input": (ib, ia)[w_], "schedule": {"first": first, "preempt": [[first, k]]}},
                                         "reference outcome", json.dumps(out, default=str)[:300])
            mon.tally("fresh_type_pairs")
    finally:
        sched.uninstall()
    mon.sample({"fresh_input_pair_types": shard["type_pairs"], "repetitions": reps})


def fresh_stress(shard, mon, S):
    """Streams of never-seen-before inputs from several threads (bounded caches fill up and evict): every
    reference-valid IBAN must be accepted, its wrong-check-digit twin rejected with a library error, generated
    IBANs must carry the reference digits."""
    from vf import gen as G_  # noqa: PLC0415
    from vf.ref import data as D_  # noqa: PLC0415
    from vf.ref import iban as R_  # noqa: PLC0415

    table = D_.countries()
    cs = sorted(table)
    n_threads = 8
    per = 400 if shard["tier"] == "quick" else 20000
    bad: list = []
    done = [0] * n_threads
    old = sys.getswitchinterval()
    sys.setswitchinterval(1e-6)
    start = threading.Barrier(n_threads)

    def body(t):
        r = random.Random(f"fresh/{env.seed()}/{shard['part']}/{t}")
        start.wait()
        for _ in range(per):
            cc = r.choice(cs)
            b = G_.random_bban(table[cc], r)
            good = R_.make_iban(cc, b)
            d0 = int(good[2:4])
            twin = good[:2] + f"{r.choice([x for x in range(100) if x != d0]):02d}" + good[4:]
            for text, want_ok in ((good, True), (twin, False)):
                try:
                    S.IBAN(text)
                    ok = True
                    err = None
                except Exception as e:  # noqa: BLE001
                    ok = False
                    err = e
                done[t] += 1
                if ok != want_ok or (err is not None and not judge.is_lib_exc(err)):
                    bad.append((text, want_ok, repr(err)[:120]))
            try:
                got = str(S.IBAN.from_bban(cc, b))
                if got != good:
                    bad.append((f"from_bban({cc},{b})", good, got))
            except Exception as e:  # noqa: BLE001
                bad.append((f"from_bban({cc},{b})", good, repr(e)[:120]))
            done[t] += 1
            if _ % 3 == 0:
                # an unseeded draw (own generator inside the library): a valid IBAN of the country or the overflow error
                try:
                    drawn = str(S.IBAN.random(cc))
                    if R_.expect_iban(drawn, table).verdict != R_.ACCEPT or drawn[:2] != cc:
                        bad.append((f"random({cc})", "valid IBAN", drawn))
                except Exception as e:  # noqa: BLE001
                    if type(e).__name__ != "GenerateRandomOverflowError" and "GenerateRandomOverflowError" not in [c_.__name__ for c_ in type(e).__mro__]:
                        bad.append((f"random({cc})", "valid IBAN or GenerateRandomOverflowError", repr(e)[:120]))
                done[t] += 1

    ts = [threading.Thread(target=body, args=(t,), daemon=True) for t in range(n_threads)]
    for t in ts:
        t.start()
    for t in ts:
        t.join(1200)
    sys.setswitchinterval(old)
    mon.ev(sum(done))
    mon.tally("fresh_input_stress_calls", sum(done))
    for t in range(n_threads):
        for k in range(0, done[t], 40):
            mon.distinct(("fresh", shard["part"], t, k))
    for text, want, got in bad[:4]:
        mon.viol("concurrent_outcome_differs_from_solo:stress:fresh_inputs", {"input": text, "threads": n_threads}, want, got)


COLD_FNS = ("bic", "iban", "from_bank_code", "iban_lookup", "random", "generate", "bic_lookup", "candidates", "algo")


LOOKUP_FNS = ("from_bank_code", "candidates", "iban_lookup", "bic_lookup")


def cold_ids(p, part):
    """Eight first calls, mostly ones that touch lazily initialised / indexed state (registry look-ups,
    German bank dispatch, registry-based random draws, pycountry)."""
    rng = env.rng("C14", "cold", part)
    look = [i for i, d in enumerate(p) if d["fn"] in LOOKUP_FNS]
    api = [i for i, d in enumerate(p) if d.get("grp", "").startswith(("api:DE", "listed:"))]
    rnd = [i for i, d in enumerate(p) if d["fn"] == "random" and d.get("use_registry")]
    other = [i for i, d in enumerate(p) if d["fn"] in ("bic", "generate", "algo")]
    return rng.sample(look, 4) + rng.sample(api, 2) + rng.sample(rnd, 1) + rng.sample(other, 1)


COLD_K = [1, 2, 3, 5, 8, 13, 21, 34, 55, 89, 144, 233, 377, 610, 987, 1597, 2584, 4181, 6765, 10946, 17711, 28657, 46368, 75025, 121393, 196418]


def coldfirst_trials(p, tier):
    """First use of every algorithm family in a fresh process: call a is preempted after K lines of its very
    first execution, call b (same algorithm, other behaviour class) runs to completion, a resumes."""
    rng = env.rng("C14", "coldfirst")
    g = groups_of(p)
    out = []
    for name in sorted(g):
        if not name.startswith(("algo:DE:", "nat:")):
            continue
        ids = [i for i in g[name] if p[i]["fn"] in ("algo", "iban") and not any(ch not in "0123456789" for ch in (p[i].get("components") or ["0"])[0])]
        if len(ids) < 2:
            continue
        ks = [rng.randrange(2, 70)] if tier == "quick" else list(range(1, 90))
        for k in ks:
            a, b = rng.sample(ids, 2)
            out.append((a, b, k))
    return out


def coldfocus_trials(p, tier):
    """[(K, [(a, b), ...]), ...]: one fresh process per K runs one pair of every algorithm family; call a is
    preempted at the K-th step it executes *inside the checksum modules* (wherever in the call that is), call b
    (same algorithm, another behaviour class) runs to completion, a resumes.  The step count is taken by the
    scheduler's monitor at run time, so K indexes into the algorithm's own code for `algo` and `iban` calls
    alike."""
    rng = env.rng("C14", "coldfocus")
    g = groups_of(p)
    fams = []
    for name in sorted(g):
        if not name.startswith(("algo:DE:", "nat:", "api:DE:")):
            continue
        ids = [i for i in g[name] if p[i]["fn"] in ("algo", "iban")]
        if len(ids) >= 2:
            fams.append(ids)
    out = []
    for k in (range(1, 33) if tier == "quick" else range(1, 161)):
        out.append((k, [tuple(rng.sample(ids, 2)) for ids in fams]))
    return out


def coldsched_trials(p, tier):
    """(first call a, second call b, K): in a fresh process a is preempted after K package lines of its
    very first execution, b runs to completion, then a resumes."""
    rng = env.rng("C14", "coldsched")
    look = [i for i, d in enumerate(p) if d["fn"] in LOOKUP_FNS]
    api = [i for i, d in enumerate(p) if d.get("grp", "").startswith(("api:DE", "listed:")) and d["fn"] in ("iban", "iban_lookup")]
    pairs = [(rng.choice(look), rng.choice(api)), (rng.choice(api), rng.choice(look)), (rng.choice(look), rng.choice(look))]
    # ... and: whatever the first call builds in file order, the second one asks for the last record of the bank
    # list (and the other way round)
    last = [i for i, d in enumerate(p) if d.get("grp") == "edge:last"]
    first_ = [i for i, d in enumerate(p) if d.get("grp") == "edge:first"]
    if last and first_:
        pairs += [(rng.choice(first_), last[0]), (rng.choice(look), last[1 % len(last)]), (last[-1], rng.choice(first_))]
    if tier != "quick":
        pairs += [(rng.choice(look + api), rng.choice(look + api)) for _ in range(9)]
    ks = COLD_K if tier != "quick" else COLD_K[::2] + [121393]
    return [(a, b, k) for a, b in pairs for k in ks]


def run_cold(shard, mon, S, p):
    """The library has just been imported; nothing has been called yet in this process."""
    ids = cold_ids(p, shard["part"])
    outs = {}
    start = threading.Barrier(len(ids))
    sys.setswitchinterval(1e-6)

    def body(i):
        start.wait()
        outs[i] = calls.execute(S, p[i])

    ts = [threading.Thread(target=body, args=(i,), daemon=True) for i in ids]
    for t in ts:
        t.start()
    for t in ts:
        t.join(120)
    if len(outs) != len(ids):
        mon.inconclusive.append("cold-start threads did not finish")
    mon.ev(len(outs))
    for i in outs:
        mon.distinct(("cold", shard["part"], i))
    mon.notes["outcomes"] = {str(i): [calls.digest(o), json.dumps(o, default=str)[:300]] for i, o in outs.items()}
    mon.notes["shard"] = shard["_name"]
    # the same calls again, alone, in the now warm process
    for i, o in outs.items():
        again = calls.execute(S, p[i])
        if calls.digest(again) != calls.digest(o):
            mon.viol(f"cold_start_outcome_differs_from_warm_solo:{p[i]['fn']}", {"descriptor": p[i], "threads": len(ids)}, json.dumps(again, default=str)[:300], json.dumps(o, default=str)[:300])
    mon.tally("cold_starts")
    mon.sample({"cold_start_calls": [p[i] for i in ids[:3]]})


def run_coldsched(shard, mon, S, p):
    """Each trial needs a process in which the library was imported but never used: the shard spawns one
    child interpreter per trial (subprocess.run with a time-out)."""
    import subprocess  # noqa: PLC0415

    outcomes = {}
    for a, b, k in shard["trials"]:
        code = (
            "import sys, json\n"
            "from vf import env, calls, judge\n"
            "from vf.mon.sched import Scheduler\n"
            "S = judge.lib()\n"
            "calls.capture_warnings()\n"
            "p = json.load(open(sys.argv[1]))\n"
            "a, b, k = int(sys.argv[2]), int(sys.argv[3]), int(sys.argv[4])\n"
            "s = Scheduler(env.PKG, 'line'); s.install()\n"
            "r = s.run([lambda: calls.execute(S, p[a]), lambda: calls.execute(S, p[b])], first=0, preempt={(0, k)}, timeout=120)\n"
            "s.uninstall()\n"
            "print(json.dumps({'results': r['results'], 'steps': r['steps'], 'degraded': r['degraded'], 'hung': r['hung']}))\n"
        )
        e = dict(os.environ, PYTHONPATH=env.VERIF, PYTHONHASHSEED="0", PYTHONDONTWRITEBYTECODE="1")
        try:
            pr = subprocess.run([env.PY, "-c", code, shard["pool_file"], str(a), str(b), str(k)], env=e, capture_output=True, text=True, timeout=300)
            doc = json.loads(pr.stdout.strip().splitlines()[-1])
        except Exception as ex:  # noqa: BLE001
            mon.inconclusive.append(f"cold scheduled trial did not finish: {ex!r}"[:200])
            continue
        mon.ev()
        mon.distinct(("coldsched", a, b, k))
        mon.tally("cold_scheduled_trials")
        if doc["steps"][0] >= k:
            mon.tally("cold_scheduled_trials_preempted")
        if doc["hung"]:
            mon.inconclusive.append("cold scheduled trial hung")
            continue
        for w_, i in enumerate((a, b)):
            out = doc["results"][w_]
            key = str(i)
            dg = calls.digest(out)
            prev = outcomes.get(key)
            if prev is not None and prev[0] != dg:
                mon.viol(f"cold_start_outcome_differs:{p[i]['fn']}", {"descriptor": p[i], "trial": [p[a], p[b], k]}, prev[1], json.dumps(out, default=str)[:300])
            outcomes[key] = [dg, json.dumps(out, default=str)[:300]]
            # per-trial record for the cross-process comparison in finish()
            mon.notes.setdefault("outcome_list", []).append([key, dg, json.dumps(out, default=str)[:200], f"{shard['_name']}:k={k}"])
    if shard["trials"]:
        a, b, k = shard["trials"][0]
        mon.sample({"cold_scheduled_trial": {"first_call": p[a], "second_call": p[b], "preempt_first_after_lines": k}})


def run_coldfocus(shard, mon, S, p):
    """One child interpreter per K; in it every algorithm family is used for the first time under a schedule
    that preempts the first caller at its K-th step inside the checksum modules."""
    import subprocess  # noqa: PLC0415

    code = (
        "import sys, json\n"
        "from vf import env, calls, judge\n"
        "from vf.mon.sched import Scheduler\n"
        "S = judge.lib()\n"
        "calls.capture_warnings()\n"
        "p = json.load(open(sys.argv[1]))\n"
        "k = int(sys.argv[2]); pairs = json.loads(sys.argv[3])\n"
        "focus = sys.argv[4]\n"
        "extra = []\n"
        "if focus == '/pycountry/':\n"
        "    import importlib.util, os\n"
        "    extra = [os.path.dirname(importlib.util.find_spec('pycountry').origin)]\n"
        "s = Scheduler(env.PKG, 'line', extra_roots=extra); s.install()\n"
        "out = []\n"
        "for a, b in pairs:\n"
        "    r = s.run([lambda: calls.execute(S, p[a]), lambda: calls.execute(S, p[b])], first=0, focus=focus, preempt_focus={(0, k)}, timeout=120)\n"
        "    out.append({'results': r['results'], 'focus_steps': r['focus_steps'], 'switches': r['switches'], 'degraded': r['degraded'], 'hung': r['hung']})\n"
        "    if r['hung']:\n"
        "        break\n"
        "s.uninstall()\n"
        "print(json.dumps(out))\n"
    )
    e = dict(os.environ, PYTHONPATH=env.VERIF, PYTHONHASHSEED="0", PYTHONDONTWRITEBYTECODE="1")
    for k, pairs in shard["trials"]:
        try:
            pr = subprocess.run([env.PY, "-c", code, shard["pool_file"], str(k), json.dumps(pairs), shard.get("focus", "/checksum/")], env=e, capture_output=True, text=True, timeout=600)
            docs = json.loads(pr.stdout.strip().splitlines()[-1])
        except Exception as ex:  # noqa: BLE001
            mon.inconclusive.append(f"first-use trial process did not finish: {ex!r}"[:200])
            continue
        for (a, b), doc in zip(pairs, docs):
            mon.ev()
            mon.tally("first_use_trials")
            if doc["hung"]:
                mon.inconclusive.append("first-use trial hung")
                continue
            if doc["focus_steps"][0] >= k and doc["switches"]:
                # the preemption point was reached: the first caller was suspended inside the checksum modules
                mon.tally("first_use_trials_preempted_inside_algorithm" if shard.get("focus", "/checksum/") == "/checksum/" else "first_use_trials_preempted_inside_third_party_code")
                mon.distinct(("coldfocus", a, b, k))
            for w_, i in enumerate((a, b)):
                out = doc["results"][w_]
                mon.notes.setdefault("outcome_list", []).append([str(i), calls.digest(out), json.dumps(out, default=str)[:200], f"{shard['_name']}:focus-k={k}"])
    if shard["trials"]:
        k, pairs = shard["trials"][0]
        a, b = pairs[0]
        mon.sample({"first_use_trial": {"first_call": p[a], "second_call": p[b], "preempt_first_at_step_inside_checksum_modules": k}})


def run_twopoint(shard, mon, S, p):
    """Two preemption points, all combinations: the partner is started first and suspended after k2 steps (it may
    be holding on to something it has just created or fetched), the call under test runs up to its k1-th step, the
    partner runs to its end (and lets go of everything), the call under test finishes.  For pairs of look-ups of
    the same bank key - the calls whose intermediate objects other calls could be made to depend on."""
    from vf.mon.sched import Scheduler  # noqa: PLC0415

    rng = env.rng("C14", "twopoint", shard["part"])
    g = groups_of(p)
    multi = sorted(n_ for n_ in g if n_.startswith(("multi:", "edge:")))
    rng.shuffle(multi)
    sched = Scheduler(env.PKG, "line")
    sched.install()
    budget = 2500 if shard["tier"] == "quick" else 30000
    try:
        for name in multi:
            ids = [i for i in g[name] if p[i]["fn"] in ("from_bank_code", "candidates")]  # short calls: no thinning
            if len(ids) < 1 or mon.evaluations >= budget:
                continue
            a = rng.choice(ids)
            b = rng.choice(ids)
            want = [calls.digest(calls.execute(S, p[a])), calls.digest(calls.execute(S, p[b]))]
            thunks = [lambda a=a: calls.execute(S, p[a]), lambda b=b: calls.execute(S, p[b])]
            base = sched.run(thunks, first=1)
            na, nb = base["steps"]
            # the call under test is stopped at every one of its steps (the windows that matter there are one line
            # wide); the partner's suspension points are thinned to about 30 (it holds what it holds for many steps)
            step_a = max(1, na // 400)
            step_b = max(1, nb // (30 if shard["tier"] == "quick" else 200))
            for k2 in range(1, nb + 1, step_b):
                for k1 in range(1, na + 1, step_a):
                    r = sched.run(thunks, first=1, preempt={(1, k2), (0, k1)})
                    mon.ev()
                    mon.tally("two_point_schedules")
                    if r["hung"]:
                        mon.inconclusive.append("two-point schedule hung")
                        continue
                    for w_, out in enumerate(r["results"]):
                        if calls.digest(out) != want[w_]:
                            mon.viol(f"concurrent_outcome_differs_from_solo:{p[(a, b)[w_]]['fn']}:two_preemption_points", {"pair": [p[a], p[b]], "schedule": {"first": 1, "preempt": [[1, k2], [0, k1]]}, "worker": w_}, "solo outcome", json.dumps(out, default=str)[:300])
            mon.distinct(("twopoint", a, b))
            mon.tally("pairs_explored_with_two_preemption_points")
    finally:
        sched.uninstall()
    mon.sample({"two_point_pair_families": multi[:3]})


def run_afterfail(shard, mon, S, p):
    """The main thread makes calls that fail (handled), then a second thread makes ordinary calls.  Whatever a
    failed call leaves behind (a lock that was not released, a half-replaced table) must not change what the
    second thread gets.  A second thread that makes no progress at all for 20 s while the main thread completes
    the very same calls in the meantime, twice in a row, is reported as blocked; anything less clear-cut is
    inconclusive."""
    import time  # noqa: PLC0415

    rng = env.rng("C14", "afterfail", shard["part"])
    ids = [i for i, d in enumerate(p) if d["fn"] in ("from_bank_code", "candidates", "iban_lookup", "bic_lookup", "iban", "bic", "generate", "random")]
    ids = rng.sample(ids, 24)
    solo = {i: calls.execute(S, p[i]) for i in ids}
    fails = [d for d in p if d["fn"] == "registry_fail"] + [{"fn": "iban", "text": "XX00", "kw": {}}, {"fn": "from_bank_code", "country": "DE", "code": "x"}, {"fn": "bban", "country": "DE", "value": "3704004405A2013000"}]
    blocked_rounds = 0
    for rnd in range(2):
        for d in fails:
            calls.execute(S, d)
        done: dict = {}

        def body():
            for i in ids:
                done[i] = calls.execute(S, p[i])

        t = threading.Thread(target=body, daemon=True)
        t.start()
        t.join(20)
        mon.ev(len(done))
        if t.is_alive():
            n1 = len(done)
            t0 = time.time()
            mine = {i: calls.execute(S, p[i]) for i in ids}  # the same calls, in the thread that made the failing calls
            main_s = time.time() - t0
            t.join(20)
            if t.is_alive() and len(done) == n1 and all(calls.digest(mine[i]) == calls.digest(solo[i]) for i in ids):
                blocked_rounds += 1
                mon.notes.setdefault("afterfail", []).append({"round": rnd, "second_thread_calls_done": n1, "main_thread_same_calls_s": round(main_s, 3)})
                continue
            if t.is_alive():
                mon.inconclusive.append("second thread slow after failing calls, but progressing")
                continue
        for i, o in done.items():
            mon.distinct(("afterfail", shard["part"], rnd, i))
            if calls.digest(o) != calls.digest(solo[i]):
                mon.viol(f"concurrent_outcome_differs_from_solo:second_thread_after_failed_calls:{p[i]['fn']}", {"descriptor": p[i], "failed_calls_before": fails[:3]}, json.dumps(solo[i], default=str)[:300], json.dumps(o, default=str)[:300])
    mon.tally("second_thread_after_failed_calls_rounds", 2)
    if blocked_rounds == 2:
        mon.viol("second_thread_blocked_after_failed_calls", {"failed_calls": fails, "blocked_call": p[ids[0]], "observations": mon.notes.get("afterfail")}, "returns as it does alone", "no progress for 2 x 40 s while the failing thread completes the same calls")
    elif blocked_rounds == 1:
        mon.inconclusive.append("second thread blocked in one of two rounds after failing calls")


def run_solo(shard, mon, S, p):
    sz = SIZES[shard["tier"]]
    ids = sorted({i for k in range(sz["cold"]) for i in cold_ids(p, k)} | {i for a, b, _ in coldsched_trials(p, shard["tier"]) + coldfirst_trials(p, shard["tier"]) for i in (a, b)} | {i for _, prs in coldfocus_trials(p, shard["tier"]) for ab in prs for i in ab} | {i for i, d in enumerate(p) if d["fn"] in ("bic", "bic_country", "iban_country", "from_bank_code", "bic_lookup")})
    outs = {i: calls.execute(S, p[i]) for i in ids}
    mon.ev(len(ids))
    mon.distinct(("solo", len(ids)))
    mon.notes["outcomes"] = {str(i): [calls.digest(o), json.dumps(o, default=str)[:300]] for i, o in outs.items()}
    mon.notes["shard"] = "solo"


def run_shard(shard, out_base):
    mon = Mon("C14")
    S = judge.lib()
    calls.capture_warnings()
    p = the_pool(shard["tier"], shard.get("pool_file"))
    {"explore": run_explore, "stress": run_stress, "cold": run_cold, "solo": run_solo, "coldsched": run_coldsched, "coldfocus": run_coldfocus, "afterfail": run_afterfail, "twopoint": run_twopoint, "fresh": run_fresh_explore}[shard["kind"]](shard, mon, S, p)
    return mon.result(out_base)


def finish(m, tier, seed):
    p = the_pool(tier)
    seen: dict = {}
    for n in m["notes"]:
        for i, (dg, txt) in (n.get("outcomes") or {}).items():
            seen.setdefault(i, {}).setdefault(dg, (txt, n.get("shard")))
        for i, dg, txt, where in n.get("outcome_list") or []:
            seen.setdefault(i, {}).setdefault(dg, (txt, where))
    for i, v in sorted(seen.items()):
        if len(v) > 1:
            d = p[int(i)]
            mech = f"cold_start_outcome_differs_from_solo_process:{d['fn']}"
            m["viol_count"][mech] = m["viol_count"].get(mech, 0) + 1
            m["violations"].append({"property": "C14", "mechanism": mech, "witness": {"descriptor": d, "outcomes": [{"outcome": t, "shard": s} for t, s in v.values()]}, "expected": "one outcome", "observed": len(v),
                                    "_shard": {"kind": "cold", "part": 0, "tier": tier, "_name": "cold-0"}})
    t = m["tallies"]
    if not t.get("schedules_line") and not m["viol_count"]:
        m["inconclusive"].append("interleaving explorer produced no schedules")
    if not t.get("stress_calls_compared"):
        m["inconclusive"].append("stress runner compared nothing")
    return {
        "schedules_line": t.get("schedules_line", 0), "schedules_instr": t.get("schedules_instr", 0), "degraded_schedules": t.get("degraded", 0),
        "pairs_explored_line": t.get("pairs_explored_line", 0), "pairs_explored_instr": t.get("pairs_explored_instr", 0),
        "distinct_interleavings_line": t.get("distinct_interleavings_line", 0), "distinct_interleavings_instr": t.get("distinct_interleavings_instr", 0),
        "interleaving_identity": "hash of the merged step trace (worker, function, line/offset) of each single-preemption schedule",
        "exhaustive": False, "exhaustive_subspaces": "all single preemption points (both start orders) of each pair drawn, at the stated granularity",
    }
