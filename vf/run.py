"""Orchestrator:  python -m vf.run <PID> <quick|thorough> [--replay path]

Never imports schwifty.  Plans shards, runs each in a fresh interpreter (subprocess.run with a
time-out), merges the shard documents, classifies violations against known_findings.json, writes
evidence/<PID>.json and exits 0 (held) / 1 (VIOLATION) / 2 (INCONCLUSIVE)."""
from __future__ import annotations

import array
import concurrent.futures as cf
import hashlib
import importlib
import json
import os
import re
import shutil
import subprocess
import sys
import tempfile
import time

from vf import env
from vf.lib import dump

LEVELS = {"exploration", "fault_enumeration", "model_checking", "proof", "translation_validation", "other"}


def run_one(pid: str, shard: dict, workdir: str, idx: int, timeout: float) -> dict:
    sp = os.path.join(workdir, f"s{idx}.json")
    op = os.path.join(workdir, f"o{idx}.json")
    shard = dict(shard)
    shard.setdefault("_name", f"s{idx}")
    shard["_watchdog_s"] = timeout
    with open(sp, "w", encoding="utf-8") as fp:
        json.dump(shard, fp)
    e = dict(os.environ)
    e["PYTHONPATH"] = env.VERIF + (os.pathsep + e["PYTHONPATH"] if e.get("PYTHONPATH") else "")
    e.setdefault("PYTHONHASHSEED", "0")
    e.update({k: str(v) for k, v in shard.get("_env", {}).items()})
    e["PYTHONDONTWRITEBYTECODE"] = "1"
    t0 = time.time()
    cwd = env.VERIF
    if shard.get("_cwd"):
        cwd = os.path.join(workdir, f"cwd{idx}")
        os.makedirs(cwd, exist_ok=True)
        if shard["_cwd"] == "bait":
            # a working directory that looks like the package's data directories: none of it is the library's business
            for sub_, doc in (("iban_registry/zz_site.json", {"ZZ": {"bban_spec": "4!n", "iban_spec": "ZZ2!n4!n", "bban_length": 4, "iban_length": 8, "positions": {"bank_code": [0, 2], "account_code": [2, 4]}},
                                                                "DE": {"bban_length": 10, "iban_length": 14, "bban_spec": "10!n"}}),
                              ("bank_registry/zz_site.json", [{"country_code": "DE", "primary": True, "bic": "BAITDEFFXXX", "bank_code": "99999999", "name": "Bait", "short_name": "Bait"}])):
                for root_ in (cwd, os.path.join(cwd, "schwifty_data"), os.path.join(cwd, ".schwifty")):
                    pth = os.path.join(root_, sub_)
                    os.makedirs(os.path.dirname(pth), exist_ok=True)
                    with open(pth, "w", encoding="utf-8") as fp_:
                        json.dump(doc, fp_)
    try:
        p = subprocess.run(
            [env.PY, "-X", "faulthandler", *[str(x) for x in shard.get("_pyflags", [])], "-m", "vf.worker", pid, sp, op],
            env=e,
            cwd=cwd,
            capture_output=True,
            text=True,
            timeout=timeout + 30,
            errors="replace",
        )
        rc, err = p.returncode, (p.stderr or "")[-3000:]
    except subprocess.TimeoutExpired:
        rc, err = -9, "orchestrator time-out"
    doc = None
    if os.path.exists(op):
        try:
            with open(op, encoding="utf-8") as fp:
                doc = json.load(fp)
        except Exception as ex:  # noqa: BLE001
            err += f"\nunreadable shard document: {ex!r}"
    if doc is None:
        doc = {"status": "died", "error": f"rc={rc} {err}"}
    elif rc != 0 and doc.get("status") == "ok":
        doc["status"] = "died"
        doc["error"] = f"rc={rc} {err}"
    doc["_shard"] = {k: v for k, v in shard.items() if k != "_watchdog_s"}
    doc["_wall"] = round(time.time() - t0, 2)
    return doc


ENV_SEEN: dict = {}


def discover_env_vars(pkg: str) -> list:
    """Names of environment variables the package's source mentions (os.environ.get / [] / os.getenv)."""
    import re  # noqa: PLC0415

    rx = re.compile(r"""(?:environ\.get\(|environ\[|getenv\(|environ\.setdefault\(|in\s+os\.environ)\s*["']([A-Za-z_][A-Za-z0-9_]*)["']|["']([A-Z][A-Z0-9_]*)["']\s+in\s+os\.environ""")
    names = set()
    for root, _dirs, files in os.walk(pkg):
        for fn in files:
            if fn.endswith(".py"):
                try:
                    with open(os.path.join(root, fn), encoding="utf-8") as fp:
                        for m_ in rx.finditer(fp.read()):
                            names.add(m_.group(1) or m_.group(2))
                except OSError:
                    pass
    # ... and the names the package is *observed* to look up (monitor on os._Environ.__getitem__ in a probe process)
    try:
        e = dict(os.environ, PYTHONPATH=env.VERIF, PYTHONDONTWRITEBYTECODE="1", PYTHONHASHSEED="0")
        p = subprocess.run([env.PY, "-m", "vf.mon.envwatch"], env=e, cwd=env.VERIF, capture_output=True, text=True, timeout=120)
        names.update(json.loads(p.stdout.strip().splitlines()[-1]))
    except Exception:  # noqa: BLE001, S110
        pass
    return sorted(n for n in names if n and not n.startswith("PYTHON"))


def merge(docs: list[dict]) -> dict:
    m = {
        "evaluations": 0,
        "tallies": {},
        "viol_count": {},
        "violations": [],
        "samples": [],
        "inconclusive": [],
        "notes": [],
        "reach": None,
        "shards": len(docs),
        "shard_walls": [],
    }
    distinct = set()
    # an import failure under a variant interpreter configuration is a verdict only when ordinary shards of the
    # same run imported the package and evaluated something (otherwise the run says nothing about the variant)
    ordinary_ok = any(d.get("status") == "ok" and not d.get("variant_import_failed") and d.get("evaluations", 0) > 0 and not (d.get("_shard") or {}).get("_variant") for d in docs)
    for d in docs:
        m["shard_walls"].append(d.get("_wall"))
        if d.get("variant_import_failed") and not ordinary_ok:
            m["inconclusive"].append(f"shard {d.get('_shard', {}).get('_name')}: package not importable and no ordinary shard to compare with")
            continue
        if d.get("status") != "ok":
            m["inconclusive"].append(
                f"shard {d.get('_shard', {}).get('_name')} {d.get('status')}: {str(d.get('error'))[-600:]}"
            )
            continue
        m["evaluations"] += d.get("evaluations", 0)
        for k, v in d.get("tallies", {}).items():
            m["tallies"][k] = m["tallies"].get(k, 0) + v
        for k, v in d.get("viol_count", {}).items():
            m["viol_count"][k] = m["viol_count"].get(k, 0) + v
        for v in d.get("violations", []):
            v["_shard"] = d.get("_shard")
            m["violations"].append(v)
        for s in d.get("samples", []):
            if len(m["samples"]) < 12:
                m["samples"].append(s)
        m["inconclusive"].extend(d.get("inconclusive", []))
        if d.get("notes"):
            m["notes"].append(d["notes"])
        if d.get("reach"):
            m["reach"] = d["reach"]
        if d.get("distinct_file") and os.path.exists(d["distinct_file"]):
            a = array.array("q")
            with open(d["distinct_file"], "rb") as fp:
                a.frombytes(fp.read())
            distinct.update(a)
        distinct.update(d.get("distinct", []))
    m["distinct_nontrivial"] = len(distinct)
    return m


def load_known():
    path = os.path.join(env.VERIF, "known_findings.json")
    try:
        with open(path, encoding="utf-8") as fp:
            return json.load(fp).get("entries", [])
    except FileNotFoundError:
        return []


def match_known(v: dict, entries: list[dict]):
    """Only `open` entries can match; matching is by mechanism id plus optional regexes over
    JSON-rendered witness fields.  Never by seed, hash or random value."""
    for e in entries:
        if e.get("status") != "open" or e.get("property") != v["property"]:
            continue
        if e.get("mechanism") != v["mechanism"]:
            continue
        ok = True
        for field, rx in (e.get("witness_match") or {}).items():
            val = v.get("witness", {}).get(field)
            if val is None or not re.search(rx, val if isinstance(val, str) else json.dumps(val)):
                ok = False
        if ok:
            return e
    return None


def main(argv=None):
    argv = list(sys.argv[1:] if argv is None else argv)
    if len(argv) < 2:
        print(__doc__)
        return 2
    pid = argv[0].upper()
    tier = argv[1]
    replay = None
    if "--replay" in argv:
        replay = argv[argv.index("--replay") + 1]
        tier = "quick" if tier not in ("quick", "thorough") else tier
    if tier not in ("quick", "thorough"):
        tier = os.environ.get("VERIF_TIER", "quick")
    seed = env.seed()
    t0 = time.time()
    mod = importlib.import_module(f"vf.props.{pid.lower()}")
    meta = mod.META
    work_root = os.path.join(env.VERIF, ".work")
    os.makedirs(work_root, exist_ok=True)
    workdir = tempfile.mkdtemp(prefix=f"{pid}-", dir=work_root)
    try:
        if replay:
            with open(replay, encoding="utf-8") as fp:
                rdoc = json.load(fp)
            shards = [rdoc["_shard"]]
            if hasattr(mod, "prepare_replay"):
                shards = [mod.prepare_replay(dict(shards[0]))]
        else:
            shards = mod.plan(tier, seed)
        if shards and not replay and meta.get("reach", True):
            shards[0]["_reach"] = True
        if not replay and meta.get("threads_copy", True) and shards:
            # the same property under concurrency for free: one ordinary shard is run a second time by four
            # threads at once in a fresh process (reference oracles are pure, so every verdict stays valid);
            # the threads start together, i.e. their first library calls are a cold concurrent start
            src = next((s_ for s_ in shards if not s_.get("_env") and not s_.get("_scratch") and s_.get("kind") not in ("contracts", "cold", "xproc", "threads")), None)
            if src is not None:
                cp = json.loads(json.dumps(src))
                for k_ in ("countries", "codes", "methods", "pairs", "ids"):
                    if isinstance(cp.get(k_), list) and len(cp[k_]) > 2:
                        cp[k_] = cp[k_][: max(2, len(cp[k_]) // 4)]  # four threads share one GIL: keep the copy small
                cp.update({"_threads": 4, "_prelude": False, "_reach": False, "_name": "threads-of-" + str(src.get("_name"))})
                shards.append(cp)
                # ... and once in an interpreter that turns every warning into an exception (-W error): verdicts
                # must not depend on the warning configuration
                cw = json.loads(json.dumps(src))
                cw.update({"_variant": "warnings-as-errors", "_env": {"PYTHONWARNINGS": "error"}, "_prelude": False, "_reach": False, "_name": "warnings-as-errors-of-" + str(src.get("_name"))})
                shards.append(cw)
                # ... and once in an interpreter as a deployment may run it: -OO (assert statements and docstrings
                # stripped) under the C locale without UTF-8 mode (default text encoding ASCII)
                co = json.loads(json.dumps(src))
                co.update({"_variant": "optimised-c-locale", "_pyflags": ["-OO"], "_env": {"LC_ALL": "C", "LANG": "C", "PYTHONCOERCECLOCALE": "0", "PYTHONUTF8": "0"}, "_prelude": True, "_reach": False,
                           "_name": "optimised-c-locale-of-" + str(src.get("_name"))})
                shards.append(co)
                # ... and once in a process whose wall clock reads 75 years later, started in an empty directory with
                # an unusual time zone (nothing in the properties depends on when or where the library runs)
                ce = json.loads(json.dumps(src))
                ce.update({"_variant": "other-environment", "_clock_years": 75, "_cwd": "bait", "_logging": "DEBUG",
                           "_env": {"TZ": "Pacific/Kiritimati", "HOME": "/nonexistent", "PYTHONINTMAXSTRDIGITS": "0"}, "_prelude": True, "_reach": False,
                           "_name": "other-environment-of-" + str(src.get("_name"))})
                shards.append(ce)
                # ... and, when the package reads environment variables at all, once with every variable it names set
                # to an explicit "off" value and once with all of them empty: both must behave like "unset"
                names = discover_env_vars(env.PKG)
                ENV_SEEN["names"] = names
                for val, tag in (("0", "zero"), ("", "empty")) if names else ():
                    cv = json.loads(json.dumps(src))
                    cv.update({"_variant": f"environment-variables-{tag}", "_cwd": "bait", "_env": {n_: val for n_ in names}, "_prelude": True, "_reach": False,
                               "_name": f"environment-variables-{tag}-of-" + str(src.get("_name"))})
                    shards.append(cv)
        if not replay and meta.get("prelude", True):
            for i_, s_ in enumerate(shards):
                if i_ % 2 == 1 and "_prelude" not in s_:
                    s_["_prelude"] = True
        only = os.environ.get("VERIF_ONLY_SHARD")
        if only and not replay:
            # debugging aid: run only the shards whose name contains the given text
            shards = [s_ for i_, s_ in enumerate(shards) if only in str(s_.get("_name", f"s{i_}"))] or shards[:1]
        timeout = float(meta.get("shard_timeout", {}).get(tier, 900 if tier == "quick" else 3600))
        docs = []
        with cf.ThreadPoolExecutor(max_workers=env.jobs()) as ex:
            futs = [ex.submit(run_one, pid, s, workdir, i, timeout) for i, s in enumerate(shards)]
            for f in futs:
                docs.append(f.result())
        m = merge(docs)
    finally:
        shutil.rmtree(workdir, ignore_errors=True)
        for s_ in (locals().get("shards") or []):
            if isinstance(s_, dict) and s_.get("_scratch"):
                from vf import scenario  # noqa: PLC0415

                scenario.remove_scratch(s_["_scratch"])
            for f_ in (s_.get("_cleanup") or []) if isinstance(s_, dict) else []:
                try:
                    os.unlink(f_)
                except OSError:
                    pass
    extra = {}
    if hasattr(mod, "finish"):
        extra = mod.finish(m, tier, seed) or {}

    if replay:
        print(f"REPLAY property={pid} shard={shards[0].get('_name')}")
        for v in m["violations"]:
            print(" ", json.dumps({k: v[k] for k in ("mechanism", "witness", "expected", "observed")})[:1500])
        print(f"  violations reproduced: {sum(m['viol_count'].values())}")
        return 1 if m["violations"] else 0

    # ---- classification
    known = load_known()
    by_mech: dict[tuple[str, str], dict] = {}
    for v in m["violations"]:
        by_mech.setdefault((v["property"], v["mechanism"]), v)
    new, matched = [], []
    for key, v in sorted(by_mech.items()):
        e = match_known(v, known)
        (matched if e else new).append((v, e))
    lines = []
    rdir = os.path.join(os.environ.get("VERIF_EVIDENCE_DIR") or os.path.join(env.VERIF, "evidence"), "replay", pid)
    for v, _ in new[:40]:
        os.makedirs(rdir, exist_ok=True)
        name = hashlib.sha1(f"{v['property']}|{v['mechanism']}".encode()).hexdigest()[:12] + ".json"
        rp = os.path.join(rdir, name)
        dump(rp, {"seed": seed, "tier": tier, **v})
        lines.append(f"VIOLATION property={v['property']} replay={rp}")
    for v, e in matched:
        lines.append(f"KNOWN-FINDING: property={v['property']} {e.get('what', v['mechanism'])}")

    min_distinct = int(meta.get("min_distinct", {}).get(tier, 2))
    if m["distinct_nontrivial"] < min_distinct:
        m["inconclusive"].append(
            f"only {m['distinct_nontrivial']} distinct non-trivial cases (< {min_distinct})"
        )
    if m["evaluations"] < 1:
        m["inconclusive"].append("no evaluations")

    wall = round(time.time() - t0, 2)
    cov = {
        "evaluations": m["evaluations"],
        "distinct_nontrivial": m["distinct_nontrivial"],
        "rule": meta["rule"],
        "samples": m["samples"] or ["<none>"],
        "tallies": dict(sorted(m["tallies"].items())),
        "shards": m["shards"],
        "violating_evaluations": m["viol_count"],
        "known_findings_matched": [v["mechanism"] for v, _ in matched],
        "inconclusive_reasons": m["inconclusive"][:20],
        "reach": m["reach"],
        "tree": env.tree_id(),
        "shard_wall_s": m["shard_walls"],
        "notes": m["notes"][:8],
    }
    if "names" in ENV_SEEN:
        cov["environment_variables_the_package_was_observed_to_read"] = ENV_SEEN["names"]
    cov.update(extra)
    ev = {
        "property_id": pid,
        "tier": tier,
        "seed": seed,
        "level": meta.get("level", "exploration"),
        "coverage": cov,
        "assumptions": meta.get("assumptions", []),
        "wall_s": wall,
        "violations": len(new),
    }
    evdir = os.environ.get("VERIF_EVIDENCE_DIR") or os.path.join(env.VERIF, "evidence")
    os.makedirs(evdir, exist_ok=True)
    dump(os.path.join(evdir, f"{pid}.json"), ev)

    tl = ", ".join(f"{k}={v}" for k, v in list(cov["tallies"].items())[:14])
    print(
        f"{pid} {tier} seed={seed}: evaluations={m['evaluations']} distinct={m['distinct_nontrivial']} "
        f"shards={m['shards']} wall={wall}s"
    )
    if tl:
        print(f"  observed: {tl}")
    for ln in lines:
        print(ln)
    for r in m["inconclusive"][:5]:
        print(f"INCONCLUSIVE property={pid} reason=" + " | ".join(x.strip() for x in r[-900:].splitlines() if x.strip()))
    if new:
        for v, _ in new[:10]:
            print("  witness:", json.dumps({k: v.get(k) for k in ("mechanism", "witness", "expected", "observed")})[:900])
        return 1
    if m["inconclusive"]:
        return 2
    print(f"HELD property={pid} (on everything observed)")
    return 0


if __name__ == "__main__":
    sys.exit(main())
