"""One shard in one fresh interpreter:  python -m vf.worker <PID> <shard.json> <out.json>"""
from __future__ import annotations

import faulthandler
import importlib
import json
import os
import sys
import time
import traceback


def main():
    pid, shard_path, out_path = sys.argv[1:4]
    with open(shard_path, encoding="utf-8") as fp:
        shard = json.load(fp)
    faulthandler.enable()
    wd = float(shard.get("_watchdog_s", 0) or 0)
    if wd:
        faulthandler.dump_traceback_later(wd, exit=True)
    from vf import env  # noqa: PLC0415

    t0 = time.time()
    doc = {"shard": shard.get("_name", "?")}
    try:
        mod = importlib.import_module(f"vf.props.{pid.lower()}")
        reach = None
        if shard.get("_reach"):
            from vf.mon import reach as reach_mod  # noqa: PLC0415

            reach = reach_mod.Reach(env.PKG)
            reach.start()
        try:
            if shard.get("_prelude"):
                from vf import judge  # noqa: PLC0415

                judge.prelude()
            res = mod.run_shard(shard, out_path)
        finally:
            if reach is not None:
                reach.stop()
        doc.update(res)
        if reach is not None:
            doc["reach"] = reach.report()
        doc["status"] = "ok"
    except BaseException as e:  # noqa: BLE001
        doc["status"] = "crashed"
        doc["error"] = "".join(traceback.format_exception(type(e), e, e.__traceback__))[-4000:]
    doc["wall_s"] = round(time.time() - t0, 3)
    tmp = out_path + ".tmp"
    with open(tmp, "w", encoding="utf-8") as fp:
        json.dump(doc, fp, ensure_ascii=True, default=str)
    os.replace(tmp, out_path)
    faulthandler.cancel_dump_traceback_later()


if __name__ == "__main__":
    main()
