"""One shard in one fresh interpreter:  python -m vf.worker <PID> <shard.json> <out.json>"""
from __future__ import annotations

import faulthandler
import importlib
import json
import os
import sys
import time
import traceback


def run_threaded(mod, shard, out_path, n):
    """Run the shard's workload in n threads at once (same inputs, pure reference oracles) and merge."""
    import threading  # noqa: PLC0415

    from vf import judge  # noqa: PLC0415

    # the package is imported once, by the main thread, as a program would do; the threads' first *calls*
    # are still a cold concurrent start
    judge.lib()
    sys.setswitchinterval(1e-6)
    # n threads share one GIL: run the copy with workload sizes scaled down (this process only)
    sizes = getattr(mod, "SIZES", None)
    tier = shard.get("tier")
    if isinstance(sizes, dict) and tier in sizes:
        cur = sizes[tier]
        if isinstance(cur, dict):
            sizes[tier] = {k: (max(1, int(v * 0.3)) if isinstance(v, int) and not isinstance(v, bool) and v is not None else v) for k, v in cur.items()}
        elif isinstance(cur, int):
            sizes[tier] = max(1, int(cur * 0.3))
    results, errors = [None] * n, []
    start = threading.Barrier(n)

    def body(i):
        try:
            start.wait()
            results[i] = mod.run_shard(dict(shard), f"{out_path}.t{i}")
        except BaseException as e:  # noqa: BLE001
            errors.append("".join(traceback.format_exception(type(e), e, e.__traceback__))[-1500:])

    ts = [threading.Thread(target=body, args=(i,), daemon=True) for i in range(n)]
    for t in ts:
        t.start()
    for t in ts:
        t.join()
    if errors or any(r is None for r in results):
        raise RuntimeError("threaded shard failed: " + (errors[0] if errors else "no result"))
    res = results[0]
    for r in results[1:]:
        res["evaluations"] += r.get("evaluations", 0)
        for k, v in r.get("viol_count", {}).items():
            res["viol_count"][k] = res["viol_count"].get(k, 0) + v
        res["violations"].extend(r.get("violations", []))
        res["inconclusive"].extend(r.get("inconclusive", []))
    for v in res["violations"]:
        if isinstance(v.get("witness"), dict):
            v["witness"]["under_threads"] = n
    res.setdefault("tallies", {})["threaded_shard_copies"] = n
    return res


def bait_probe(pid, res):
    """The working directory of this process holds iban_registry/ and bank_registry/ folders with a country ZZ, a
    shortened DE and a bank DE/99999999: none of that may have reached the library."""
    from vf import judge  # noqa: PLC0415
    from vf.lib import observe  # noqa: PLC0415

    S = judge.lib()
    found = []
    o = observe(S.IBAN, "ZZ211234")
    if o.ok:
        found.append(["IBAN('ZZ211234') accepted", o.brief()])
    o = observe(S.IBAN, "DE89370400440532013000")
    if not o.ok and o.is_a("InvalidLength"):
        found.append(["IBAN('DE89370400440532013000') rejected for its length (the bait shortens DE)", o.brief()])
    o = observe(S.BIC.from_bank_code, "DE", "99999999")
    if o.ok:
        found.append(["BIC.from_bank_code('DE', '99999999') found a bank", o.brief()])
    o = observe(lambda: S.IBAN("DE89370400440532013000").bic)
    if o.ok and str(o.value) == "BAITDEFFXXX":
        found.append(["bic of an IBAN taken from the bait file", o.brief()])
    res["evaluations"] = res.get("evaluations", 0) + 4
    res.setdefault("tallies", {})["working_directory_bait_probes"] = 4
    if found:
        res.setdefault("viol_count", {})["files_in_the_working_directory_reach_the_library"] = len(found)
        res.setdefault("violations", []).append({"property": pid, "mechanism": "files_in_the_working_directory_reach_the_library", "witness": {"cwd": "iban_registry/zz_site.json, bank_registry/zz_site.json (also under schwifty_data/, .schwifty/)", "observed": found},
                                                 "expected": "only the package's own registry directories are read", "observed": found[0][0]})


def variant_import_failure(pid, shard, out_path):
    """A copy of an ordinary shard under another interpreter configuration: the package must import there as
    it does in the ordinary shards (the orchestrator keeps this verdict only when those did import it)."""
    from vf import judge  # noqa: PLC0415
    from vf.lib import Mon  # noqa: PLC0415

    try:
        judge.lib()
    except Exception as ie:  # noqa: BLE001
        mon = Mon(pid)
        mon.ev()
        tb = "".join(traceback.format_exception(type(ie), ie, ie.__traceback__))
        mon.viol(f"library_cannot_be_imported:{shard['_variant']}", {"interpreter_flags": shard.get("_pyflags"), "environment": shard.get("_env")},
                 "the package imports as under the default configuration", tb[-600:])
        res = mon.result(out_path)
        res["variant_import_failed"] = True
        return res
    return None


def shift_clock(years: float):
    """Make the wall clock of this process read `years` later (time.time, datetime.now/today/utcnow, date.today)
    before the package under test is imported.  Monotonic clocks - which every time-out of the harness uses -
    are untouched."""
    import datetime  # noqa: PLC0415

    off = years * 365.25 * 86400
    real = time.time
    time.time = lambda: real() + off
    real_ns = time.time_ns
    time.time_ns = lambda: real_ns() + int(off * 1e9)

    class date(datetime.date):  # noqa: N801
        @classmethod
        def today(cls):
            return cls.fromtimestamp(time.time())

    class datetime_(datetime.datetime):
        @classmethod
        def now(cls, tz=None):
            return cls.fromtimestamp(time.time(), tz)

        @classmethod
        def utcnow(cls):
            return cls.fromtimestamp(time.time(), datetime.timezone.utc).replace(tzinfo=None)

        @classmethod
        def today(cls):
            return cls.fromtimestamp(time.time())

    datetime_.__name__ = datetime_.__qualname__ = "datetime"
    datetime.date, datetime.datetime = date, datetime_


def main():
    pid, shard_path, out_path = sys.argv[1:4]
    with open(shard_path, encoding="utf-8") as fp:
        shard = json.load(fp)
    if shard.get("_clock_years"):
        shift_clock(float(shard["_clock_years"]))
    if shard.get("_logging"):
        # an application that has switched on verbose logging for everything
        import io  # noqa: PLC0415
        import logging  # noqa: PLC0415

        logging.basicConfig(level=getattr(logging, shard["_logging"]), stream=io.StringIO(), force=True)
        logging.raiseExceptions = True
    faulthandler.enable()
    wd = float(shard.get("_watchdog_s", 0) or 0)
    if wd:
        faulthandler.dump_traceback_later(wd, exit=True)
    from vf import env  # noqa: PLC0415

    t0 = time.time()
    doc = {"shard": shard.get("_name", "?")}
    try:
        mod = importlib.import_module(f"vf.props.{pid.lower()}")
        reach = None
        if shard.get("_reach"):
            from vf.mon import reach as reach_mod  # noqa: PLC0415

            reach = reach_mod.Reach(env.PKG)
            reach.start()
        try:
            res = variant_import_failure(pid, shard, out_path) if shard.get("_variant") else None
            if res is None:
                if shard.get("_prelude"):
                    from vf import judge  # noqa: PLC0415

                    judge.prelude()
                if shard.get("_threads"):
                    res = run_threaded(mod, shard, out_path, int(shard["_threads"]))
                else:
                    res = mod.run_shard(shard, out_path)
                if shard.get("_cwd") == "bait":
                    bait_probe(pid, res)
        finally:
            if reach is not None:
                reach.stop()
        doc.update(res)
        if reach is not None:
            doc["reach"] = reach.report()
        doc["status"] = "ok"
    except BaseException as e:  # noqa: BLE001
        doc["status"] = "crashed"
        doc["error"] = "".join(traceback.format_exception(type(e), e, e.__traceback__))[-4000:]
    doc["wall_s"] = round(time.time() - t0, 3)
    tmp = out_path + ".tmp"
    with open(tmp, "w", encoding="utf-8") as fp:
        json.dump(doc, fp, ensure_ascii=True, default=str)
    os.replace(tmp, out_path)
    faulthandler.cancel_dump_traceback_later()


if __name__ == "__main__":
    main()
