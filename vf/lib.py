"""Worker-side helpers: boundary observation, violation/tally collector."""
from __future__ import annotations

import array
import hashlib
import json
import os


def h64(key) -> int:
    if not isinstance(key, (bytes, bytearray)):
        key = repr(key).encode("utf-8", "surrogatepass")
    return int.from_bytes(hashlib.blake2b(key, digest_size=8).digest(), "little", signed=True)


def esc(s):
    """JSON-safe rendering of arbitrary text (lone surrogates, controls)."""
    if isinstance(s, str):
        return s.encode("unicode_escape").decode("ascii")
    return s


def unesc(s: str) -> str:
    return s.encode("ascii").decode("unicode_escape")


class Obs:
    """Outcome of one observed call at the public boundary."""

    __slots__ = ("ok", "value", "exc")

    def __init__(self, ok, value=None, exc=None):
        self.ok, self.value, self.exc = ok, value, exc

    @property
    def exc_name(self):
        return type(self.exc).__name__ if self.exc is not None else None

    @property
    def exc_names(self):
        """Class names along the MRO below ValueError/Exception: a subclass of InvalidStructure still *is* one."""
        if self.exc is None:
            return set()
        return {c.__name__ for c in type(self.exc).__mro__ if c not in (object, BaseException, Exception, ValueError)}

    def is_a(self, *names):
        return bool(self.exc_names & set(names))

    def brief(self):
        if self.ok:
            return ["ok", esc(repr(self.value))[:200]]
        return ["exc", type(self.exc).__name__, esc(str(self.exc))[:160]]


def soft_attr(obj, name, fallback):
    """Read an accessor the documentation discourages (`compact`, `length`): a tree may deprecate it formally,
    and under -W error the DeprecationWarning then arrives as an exception - that is not a verdict on anything,
    the fallback (what the accessor is documented to equal) is used instead."""
    try:
        return getattr(obj, name)
    except DeprecationWarning:
        return fallback


def observe(fn, *a, **kw) -> Obs:
    try:
        return Obs(True, fn(*a, **kw))
    except Exception as e:  # noqa: BLE001  (the monitor must see everything that escapes)
        return Obs(False, None, e)


class Mon:
    """Collector for one shard: evaluations, distinct cases, tallies, violations, samples."""

    MAX_WITNESS_PER_MECH = 3

    def __init__(self, prop: str):
        self.prop = prop
        self.evaluations = 0
        self._distinct = set()
        self.tallies: dict[str, int] = {}
        self.viol_count: dict[str, int] = {}
        self.violations: list[dict] = []
        self.samples: list = []
        self.inconclusive: list[str] = []
        self.notes: dict = {}

    def ev(self, n: int = 1):
        self.evaluations += n

    def distinct(self, key):
        self._distinct.add(h64(key))

    def tally(self, key: str, n: int = 1):
        self.tallies[key] = self.tallies.get(key, 0) + n

    def sample(self, x, cap: int = 6):
        if len(self.samples) < cap:
            self.samples.append(x)

    def viol(self, mechanism: str, witness: dict, expected=None, observed=None, prop=None):
        self.viol_count[mechanism] = self.viol_count.get(mechanism, 0) + 1
        if self.viol_count[mechanism] <= self.MAX_WITNESS_PER_MECH:
            self.violations.append(
                {
                    "property": prop or self.prop,
                    "mechanism": mechanism,
                    "witness": witness,
                    "expected": expected,
                    "observed": observed,
                }
            )

    def result(self, out_base: str | None = None) -> dict:
        res = {
            "evaluations": self.evaluations,
            "tallies": self.tallies,
            "viol_count": self.viol_count,
            "violations": self.violations,
            "samples": self.samples,
            "inconclusive": self.inconclusive,
            "notes": self.notes,
            "n_distinct_local": len(self._distinct),
        }
        if out_base:
            path = out_base + ".distinct"
            with open(path, "wb") as fp:
                array.array("q", self._distinct).tofile(fp)
            res["distinct_file"] = path
        else:
            res["distinct"] = sorted(self._distinct)
        return res


def dump(path: str, doc):
    tmp = path + ".tmp"
    with open(tmp, "w", encoding="utf-8") as fp:
        json.dump(doc, fp, ensure_ascii=True, indent=1, sort_keys=False, default=str)
    os.replace(tmp, path)
