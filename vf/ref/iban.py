"""R-IBAN / R-BIC: ISO 13616, ISO 7064 MOD 97-10 and ISO 9362 as three-valued oracles.
Never imports schwifty; data comes from R-DATA (the tree's JSON files)."""
from __future__ import annotations

import re

from vf.ref import data

ACCEPT, REJECT, DONT_CARE = "ACCEPT", "REJECT", "DONT_CARE"

# Unicode White_Space property (what "whitespace" means beyond doubt); Python's str.isspace additionally
# counts the information separators U+001C..U+001F, which stay a DONT_CARE zone.
VERDICT_WS = set(" \t\n\r\f\v\u0085\u00a0\u1680\u2028\u2029\u202f\u205f\u3000") | {chr(c) for c in range(0x2000, 0x200B)}
DIGITS = "0123456789"
UPPER = "ABCDEFGHIJKLMNOPQRSTUVWXYZ"
ALNUM = DIGITS + UPPER
CLASS = {"n": DIGITS, "a": UPPER, "c": ALNUM, "e": " "}
_TOKEN = re.compile(r"(\d+)(!)?([nace])")


def is_ascii_alnum_upper(s: str) -> bool:
    return all(c in ALNUM for c in s)


def ambiguous_normalisation(text: str) -> bool:
    """Zones where the statement ('removing whitespace and upper-casing') does not pin the result:
    a non-ASCII character whose upper-casing is made of ASCII alphanumerics; a whitespace character
    outside the verdict set."""
    for c in text:
        if c in VERDICT_WS:
            continue
        if c.isspace():
            return True
        if ord(c) > 127:
            try:
                u = c.upper()
            except Exception:  # noqa: BLE001
                return True
            if u and all(x in ALNUM for x in u):
                return True
    return False


def normalise(text: str) -> str:
    return "".join(c for c in text if not c.isspace()).upper()


def parse_spec(spec: str):
    """'8!n10!n' -> list of (min, max, class-letter) or None if not understood."""
    out, pos = [], 0
    for m in _TOKEN.finditer(spec):
        if m.start() != pos:
            return None
        n = int(m.group(1))
        out.append((n if m.group(2) else 1, n, m.group(3)))
        pos = m.end()
    return out if pos == len(spec) and out else None


def position_classes(spec: str):
    """Per-position class string for fixed-length structures, else None."""
    toks = parse_spec(spec)
    if toks is None or any(lo != hi for lo, hi, _ in toks):
        return None
    out = []
    for _, n, k in toks:
        out.extend([CLASS[k]] * n)
    return out


def matches_spec(spec: str, s: str) -> bool:
    cls = position_classes(spec)
    if cls is not None:
        return len(s) == len(cls) and all(c in k for c, k in zip(s, cls))
    toks = parse_spec(spec)
    if toks is None:
        raise ValueError(f"structure string not understood: {spec!r}")

    def rec(i, p):
        if i == len(toks):
            return p == len(s)
        lo, hi, k = toks[i]
        n = 0
        while n < hi and p + n < len(s) and s[p + n] in CLASS[k]:
            n += 1
        for take in range(n, lo - 1, -1):
            if rec(i + 1, p + take):
                return True
        return False

    return rec(0, 0)


def numerify(s: str) -> int:
    return int("".join(str(ALNUM.index(c)) for c in s))


def mod97(s: str) -> int:
    """Remainder mod 97 of the letter-expanded decimal string, computed digit-wise (no big ints)."""
    r = 0
    for c in s:
        v = ALNUM.index(c)
        r = (r * (10 if v < 10 else 100) + v) % 97
    return r


def check_digits(country: str, bban: str) -> str:
    """ISO 13616: 98 - (bban + country + '00' as number mod 97), two digits."""
    return f"{98 - mod97(bban + country + '00'):02d}"


def make_iban(country: str, bban: str) -> str:
    return country + check_digits(country, bban) + bban


class IbanExpectation:
    __slots__ = ("verdict", "allowed", "defects", "norm")

    def __init__(self, verdict, allowed=(), defects=(), norm=""):
        self.verdict, self.allowed, self.defects, self.norm = verdict, set(allowed), set(defects), norm


def expect_iban(text: str, table: dict | None = None) -> IbanExpectation:
    table = data.countries() if table is None else table
    s = normalise(text)
    dc = ambiguous_normalisation(text)
    defects, allowed = set(), set()
    ascii_ok = is_ascii_alnum_upper(s)
    cc = s[:2]
    head_ok = len(s) >= 4 and all(c in UPPER for c in s[:2]) and all(c in DIGITS for c in s[2:4])
    if not ascii_ok or not head_ok:
        defects.add("structure")
    known = len(cc) == 2 and cc in table
    if not known:
        defects.add("country")
    else:
        spec = table[cc]
        if len(s) != spec["iban_length"]:
            defects.add("length")
            defects.add("structure")
        elif ascii_ok and not matches_spec(spec["bban_spec"], s[4:]):
            defects.add("structure")
        elif not ascii_ok:
            defects.add("structure")
    if ascii_ok and len(s) > 4:
        if not head_ok or s[2:4] != check_digits(s[:2] if all(c in ALNUM for c in s[:2]) else "00", s[4:]):
            defects.add("checksum")
    if "structure" in defects:
        allowed.add("InvalidStructure")
    if "country" in defects:
        allowed.add("InvalidCountryCode")
    if "length" in defects:
        allowed.add("InvalidLength")
    if "checksum" in defects:
        allowed.add("InvalidChecksumDigits")
    verdict = REJECT if defects else ACCEPT
    if dc:
        verdict = DONT_CARE
    return IbanExpectation(verdict, allowed, defects, s)


_BIC_CLASSES = {
    False: [ALNUM] * 4 + [UPPER] * 2 + [ALNUM] * 2 + [ALNUM] * 3,
    True: [UPPER] * 4 + [UPPER] * 2 + [ALNUM] * 2 + [ALNUM] * 3,
}


def expect_bic(text: str, strict: bool = False) -> IbanExpectation:
    s = normalise(text)
    dc = ambiguous_normalisation(text)
    defects, allowed = set(), set()
    if len(s) not in (8, 11):
        defects.add("length")
    cls = _BIC_CLASSES[bool(strict)]
    for i, c in enumerate(s[:11]):
        if c not in cls[i]:
            defects.add("structure")
    if len(s) > 11 and not is_ascii_alnum_upper(s[11:]):
        defects.add("structure")
    cc = s[4:6]
    cc_letters = len(cc) == 2 and all(c in UPPER for c in cc)
    if not cc_letters or cc not in data.iso3166_alpha2():
        defects.add("country")
    if "length" in defects:
        allowed |= {"InvalidLength", "InvalidStructure"}
    if "structure" in defects:
        allowed.add("InvalidStructure")
    if "country" in defects:
        allowed.add("InvalidCountryCode")
        if not cc_letters:
            allowed.add("InvalidStructure")
    verdict = REJECT if defects else ACCEPT
    if dc:
        verdict = DONT_CARE
    return IbanExpectation(verdict, allowed, defects, s)
