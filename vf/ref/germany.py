"""R-DE: Bundesbank check-digit methods ("Pruefzifferberechnungsmethoden"), written from the published
rules, three-valued.  Account = ten ASCII digits d1..d10 (a[0]..a[9]).  Never imports schwifty."""
from __future__ import annotations

from vf.ref.iban import ACCEPT, DIGITS, DONT_CARE, REJECT


def qs(n: int) -> int:
    return sum(int(c) for c in str(n))


def wsum(digs: str, weights, from_right=True, quer=False, unit=False) -> int:
    seq = digs[::-1] if from_right else digs
    tot = 0
    for i, c in enumerate(seq):
        p = int(c) * weights[i % len(weights)]
        if quer:
            p = qs(p)
        if unit:
            p %= 10
        tot += p
    return tot


def m10(s: int) -> int:
    return (10 - s % 10) % 10


def m11a(s: int):
    r = s % 11
    if r == 0:
        return 0
    if r == 1:
        return None
    return 11 - r


def m11b(s: int) -> int:
    r = s % 11
    return 0 if r in (0, 1) else 11 - r


def _eq(p, ch) -> bool:
    return p is not None and str(p) == ch


W27 = [2, 3, 4, 5, 6, 7]
W29 = [2, 3, 4, 5, 6, 7, 8, 9]
W210 = [2, 3, 4, 5, 6, 7, 8, 9, 10]


def v00(a, digs=None, chk=None):
    digs = a[0:9] if digs is None else digs
    chk = a[9] if chk is None else chk
    return _eq(m10(wsum(digs, [2, 1], quer=True)), chk)


def _simple(fam, weights, lo=0, hi=9, chk=9, **kw):
    def f(a):
        return _eq(fam(wsum(a[lo:hi], weights, **kw)), a[chk])

    return f


def v08(a):
    if int(a) < 60000:
        return True
    return v00(a)


def v11(a):
    r = wsum(a[0:9], W210) % 11
    p = 0 if r == 0 else 9 if r == 1 else 11 - r
    return str(p) == a[9]


def v13(a):
    if v00(a, a[1:7], a[7]):
        return True
    if a[:2] == "00":
        b = a[2:] + "00"
        if v00(b, b[1:7], b[7]):
            return None
    return False


def v16(a):
    r = wsum(a[0:9], [2, 3, 4, 5, 6, 7, 2, 3, 4]) % 11
    if r == 1 and a[8] == a[9]:
        return True
    return str(m11b(r)) == a[9] if r != 1 else a[9] == "0"


def v17(a):
    s = wsum(a[1:7], [1, 2], from_right=False, quer=True)
    r = (s - 1) % 11
    p = 0 if r == 0 else 10 - r
    return str(p) == a[7]


def v21(a):
    s = wsum(a[0:9], [2, 1], quer=True)
    while s >= 10:
        s = qs(s)
    return str((10 - s) % 10) == a[9]


def v23(a):
    r = wsum(a[0:6], W27) % 11
    if r == 0:
        return a[6] == "0"
    if r == 1:
        if a[5] == a[6]:
            return True
        return None if a[6] == "0" else False
    return str(11 - r) == a[6]


def v24(a):
    d = list(a[0:9])
    if d[0] in "3456":
        d[0] = "0"
    elif d[0] == "9":
        d[0] = d[1] = d[2] = "0"
    s = "".join(d).lstrip("0")
    w = [1, 2, 3]
    tot = 0
    for i, c in enumerate(s):
        tot += (int(c) * w[i % 3] + w[i % 3]) % 11
    return str(tot % 10) == a[9]


def v25(a):
    r = wsum(a[1:9], W29) % 11
    if r == 0:
        return a[9] == "0"
    if r == 1:
        return a[9] == "0" and a[1] in "89"
    return str(11 - r) == a[9]


def v26(a):
    if a[:2] == "00":
        a = a[2:] + "00"
    return _eq(m11b(wsum(a[0:7], [2, 3, 4, 5, 6, 7, 2])), a[7])


def v61(a):
    if a[8] == "8":
        return _eq(m10(wsum(a[0:7] + a[8:10], [2, 1], quer=True)), a[7])
    return v00(a, a[0:7], a[7])


def v63(a):
    if a[0] != "0":
        return False
    if v00(a, a[1:7], a[7]):
        return True
    if a[:3] == "000" and v00(a, a[3:9], a[9]):
        return None
    return False


def v68(a):
    n = len(a.lstrip("0"))
    if n == 10:
        if a[3] != "9":
            return False
        return v00(a, a[3:9], a[9])
    if n == 9 and a[1] == "4":
        return True
    if n < 6:
        return None
    if v00(a, a[1:9], a[9]):
        return True
    return v00(a, a[1] + a[4:9], a[9])


def v76(a):
    if a[0] not in "046789":
        return False

    def chk(x):
        r = wsum(x[1:7], [2, 3, 4, 5, 6, 7, 8]) % 11
        return r, (r != 10 and str(r) == x[7])

    r, ok = chk(a)
    if ok:
        return True
    if r == 10 and a[7] == "0":
        return None
    if a[:2] == "00":
        b = a[2:] + "00"
        if b[0] in "046789" and chk(b)[1]:
            return None
    return False


def v88(a):
    if a[2] == "9":
        return _eq(m11b(wsum(a[2:9], [2, 3, 4, 5, 6, 7, 8])), a[9])
    return _eq(m11b(wsum(a[3:9], W27)), a[9])


def v91(a):
    c = a[6]
    if _eq(m11b(wsum(a[0:6], W27)), c):
        return True
    if _eq(m11b(wsum(a[0:6], [7, 6, 5, 4, 3, 2])), c):
        return True
    if _eq(m11b(wsum(a[0:10], [2, 3, 4, 0, 5, 6, 7, 8, 9, 10])), c):
        return True
    return _eq(m11b(wsum(a[0:6], [2, 4, 8, 5, 10, 9])), c)


def v99(a):
    if 396000000 <= int(a) <= 499999999:
        return True
    return _eq(m11b(wsum(a[0:9], [2, 3, 4, 5, 6, 7, 2, 3, 4])), a[9])


METHODS = {
    "00": v00,
    "01": _simple(m10, [3, 7, 1]),
    "02": _simple(m11a, [2, 3, 4, 5, 6, 7, 8, 9, 2]),
    "03": _simple(m10, [2, 1]),
    "04": _simple(m11a, [2, 3, 4, 5, 6, 7, 2, 3, 4]),
    "05": _simple(m10, [7, 3, 1]),
    "06": _simple(m11b, W27),
    "07": _simple(m11a, W210),
    "08": v08,
    "09": lambda a: True,
    "10": _simple(m11b, W210),
    "11": v11,
    "13": v13,
    "14": _simple(m11a, W27, 3, 9, 9),
    "15": _simple(m11b, [2, 3, 4, 5], 5, 9, 9),
    "16": v16,
    "17": v17,
    "18": _simple(m10, [3, 9, 7, 1]),
    "19": _simple(m11b, [2, 3, 4, 5, 6, 7, 8, 9, 1]),
    "20": _simple(m11b, [2, 3, 4, 5, 6, 7, 8, 9, 3]),
    "21": v21,
    "22": _simple(m10, [3, 1], unit=True),
    "23": v23,
    "24": v24,
    "25": v25,
    "26": v26,
    "28": _simple(m11b, [2, 3, 4, 5, 6, 7, 8], 0, 7, 7),
    "32": _simple(m11b, W27, 3, 9, 9),
    "33": _simple(m11b, [2, 3, 4, 5, 6], 4, 9, 9),
    "34": _simple(m11b, [2, 4, 8, 5, 10, 9, 7], 0, 7, 7),
    "38": _simple(m11b, [2, 4, 8, 5, 10, 9], 3, 9, 9),
    "60": _simple(m10, [2, 1], 2, 9, 9, quer=True),
    "61": v61,
    "63": v63,
    "68": v68,
    "76": v76,
    "88": v88,
    "91": v91,
    "99": v99,
}


def verdict(method: str, account: str) -> str:
    f = METHODS.get(method)
    if f is None or len(account) != 10 or any(c not in DIGITS for c in account):
        return DONT_CARE
    r = f(account)
    if r is None:
        return DONT_CARE
    return ACCEPT if r else REJECT


def facts(method: str, a: str) -> dict:
    """Intermediate facts used to force interesting classes (C07/C14/C15 workloads)."""
    out = {}
    try:
        if method in ("16", "99", "04"):
            out["r"] = wsum(a[0:9], [2, 3, 4, 5, 6, 7, 2, 3, 4]) % 11
        elif method == "23":
            out["r"] = wsum(a[0:6], W27) % 11
        elif method == "25":
            out["r"] = wsum(a[1:9], W29) % 11
        elif method in ("02",):
            out["r"] = wsum(a[0:9], [2, 3, 4, 5, 6, 7, 8, 9, 2]) % 11
        elif method in ("06",):
            out["r"] = wsum(a[0:9], W27) % 11
        elif method in ("07", "10", "11"):
            out["r"] = wsum(a[0:9], W210) % 11
        elif method == "14":
            out["r"] = wsum(a[3:9], W27) % 11
    except Exception:  # noqa: BLE001
        pass
    return out
