"""R-NAT: national check-digit algorithms written from the published rules (never imports schwifty).
Layouts are the published national BBAN layouts (absolute offsets); a country whose BBAN length in the
tree differs from the published one is DONT_CARE (reported as uncovered), never a verdict."""
from __future__ import annotations

from vf.ref.iban import ACCEPT, ALNUM, DIGITS, DONT_CARE, REJECT, mod97

ISO_98 = {"BA": 16, "PT": 21, "RS": 18, "ME": 18, "MK": 15, "SI": 15, "TL": 19}
ISO_97 = {"MR": 23, "TN": 20}
LENGTHS = {"BE": 12, "ES": 20, "FR": 23, "MC": 23, "IT": 23, "SM": 23, "FI": 14, "NO": 11, "PL": 24, "EE": 16,
           "CZ": 20, "SK": 20, "IS": 22, **ISO_98, **ISO_97}
COUNTRIES = sorted(LENGTHS)
# countries that keep separately computed digits in a dedicated field (C09)
COMPUTING = ["BE", "BA", "ES", "FR", "MC", "IT", "SM", "FI", "NO", "PL", "EE", "PT", "RS", "ME", "MK", "SI", "TL", "MR", "TN"]
CHECK_FIELD = {"BE": (10, 12), "ES": (8, 10), "FR": (21, 23), "MC": (21, 23), "IT": (0, 1), "SM": (0, 1), "FI": (13, 14),
               "NO": (10, 11), "PL": (7, 8), "EE": (15, 16)}
for _c, _n in {**ISO_98, **ISO_97}.items():
    CHECK_FIELD[_c] = (_n - 2, _n)

FR_MAP = {}
for _i, _ch in enumerate("ABCDEFGHI"):
    FR_MAP[_ch] = str(_i + 1)
for _i, _ch in enumerate("JKLMNOPQR"):
    FR_MAP[_ch] = str(_i + 1)
for _i, _ch in enumerate("STUVWXYZ"):
    FR_MAP[_ch] = str(_i + 2)
for _d in DIGITS:
    FR_MAP[_d] = _d

IT_ODD = [1, 0, 5, 7, 9, 13, 15, 17, 19, 21, 2, 4, 18, 20, 11, 3, 6, 8, 12, 14, 16, 10, 22, 25, 24, 23]
ES_W = [1, 2, 4, 8, 5, 10, 9, 7, 3, 6]
CZ_W = [6, 3, 7, 9, 10, 5, 8, 4, 2, 1]


def _all_digits(s):
    return all(c in DIGITS for c in s)


def _es_digit(digs):
    x = 11 - sum(int(c) * w for c, w in zip(digs, ES_W)) % 11
    return {11: 0, 10: 1}.get(x, x)


def _it_value(ch):
    return DIGITS.index(ch) if ch in DIGITS else ALNUM.index(ch) - 10


def luhn_digit(body: str) -> int:
    tot = 0
    for i, c in enumerate(reversed(body)):
        p = int(c) * (2 if i % 2 == 0 else 1)
        tot += p // 10 + p % 10
    return (10 - tot % 10) % 10


def expected_digits(cc: str, b: str):
    """(kind, value): kind 'digits' with the expected content of the check field, 'none' when no valid
    digit exists, 'dontcare' when the rule is not pinned down."""
    if cc == "BE":
        k = int(b[:10]) % 97
        return "digits", f"{k or 97:02d}"
    if cc in ISO_98:
        return "digits", f"{98 - mod97(b[:-2] + '00'):02d}"
    if cc in ISO_97:
        return "digits", f"{97 - mod97(b[:-2] + '00'):02d}"
    if cc == "ES":
        return "digits", f"{_es_digit('00' + b[:8])}{_es_digit(b[10:20])}"
    if cc in ("FR", "MC"):
        n = int("".join(FR_MAP[c] for c in b[:21]))
        return "digits", f"{97 - n * 100 % 97:02d}"
    if cc in ("IT", "SM"):
        tot = 0
        for i, ch in enumerate(b[1:23]):
            v = _it_value(ch)
            tot += IT_ODD[v] if i % 2 == 0 else v
        return "digits", ALNUM[10 + tot % 26]
    if cc == "FI":
        return "digits", str(luhn_digit(b[:13]))
    if cc == "NO":
        w = [5, 4, 3, 2, 7, 6, 5, 4, 3, 2]
        r = sum(int(c) * x for c, x in zip(b[:10], w)) % 11
        full = None if r == 1 else str((11 - r) % 11)
        if b[4:6] == "00":
            # some publications check only the last six digits + check digit for such accounts
            r2 = sum(int(c) * x for c, x in zip(b[6:10], [5, 4, 3, 2])) % 11
            alt = None if r2 == 1 else str((11 - r2) % 11)
            if alt != full:
                return "dontcare", None
        return ("none", None) if full is None else ("digits", full)
    if cc == "PL":
        s = sum(int(c) * w for c, w in zip(b[:7], [3, 9, 7, 1, 3, 9, 7]))
        return "digits", str((10 - s % 10) % 10)
    if cc == "EE":
        ws = [7, 3, 1]
        s = sum(int(c) * ws[i % 3] for i, c in enumerate(reversed(b[2:15])))
        return "digits", str((10 - s % 10) % 10)
    raise KeyError(cc)


def verdict(cc: str, bban: str, table_len: int | None = None) -> str:
    """Judgement of the national check of a structure-conforming BBAN."""
    if cc not in LENGTHS:
        return ACCEPT  # no national algorithm: unaffected
    if len(bban) != LENGTHS[cc] or (table_len is not None and table_len != LENGTHS[cc]):
        return DONT_CARE
    b = bban
    if cc in ("CZ", "SK"):
        if not _all_digits(b):
            return DONT_CARE
        p = sum(int(c) * w for c, w in zip(b[4:10], CZ_W[4:])) % 11
        a = sum(int(c) * w for c, w in zip(b[10:20], CZ_W)) % 11
        return ACCEPT if p == 0 and a == 0 else REJECT
    if cc == "IS":
        k = b[12:22]
        if not _all_digits(k):
            return DONT_CARE
        r = sum(int(c) * w for c, w in zip(k[:8], [3, 2, 7, 6, 5, 4, 3, 2])) % 11
        d = 0 if r == 0 else 11 - r
        return ACCEPT if d < 10 and str(d) == k[8] else REJECT
    try:
        kind, val = expected_digits(cc, b)
    except (ValueError, KeyError, IndexError):
        return DONT_CARE
    if kind == "dontcare":
        return DONT_CARE
    if kind == "none":
        return REJECT
    s, e = CHECK_FIELD[cc]
    return ACCEPT if b[s:e] == val else REJECT


def force_valid(cc: str, bban: str):
    """A BBAN differing from `bban` only inside the check field(s) that the reference accepts, or
    None when impossible for this body."""
    b = bban
    if cc in ("CZ", "SK"):
        for x in DIGITS:
            for y in DIGITS:
                t = b[:9] + x + b[10:19] + y
                if verdict(cc, t) == ACCEPT:
                    return t
        return None
    if cc == "IS":
        for x in DIGITS:
            t = b[:20] + x + b[21:]
            if verdict(cc, t) == ACCEPT:
                return t
        return None
    if cc not in CHECK_FIELD:
        return None
    try:
        kind, val = expected_digits(cc, b)
    except (ValueError, KeyError, IndexError):
        return None
    if kind != "digits":
        return None
    s, e = CHECK_FIELD[cc]
    return b[:s] + val + b[e:]


def body_fill(cc: str, digits: str, length: int):
    """A BBAN of `length` whose non-check positions carry the successive characters of `digits`
    (so that countries with equally long bodies get the same concatenated components); the check
    field is left as zeros for force_valid to fill."""
    s, e = CHECK_FIELD.get(cc, (0, 0))
    out, k = [], 0
    for i in range(length):
        if s <= i < e:
            out.append("A" if cc in ("IT", "SM") else "0")
        else:
            out.append(digits[k % len(digits)])
            k += 1
    return "".join(out)
