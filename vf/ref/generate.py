"""R-GEN: model of component placement (C08/C09 statement).  Never imports schwifty."""
from __future__ import annotations

from vf.ref import data
from vf.ref import iban as R
from vf.ref import national as N

TOO_LONG = {"bank_code": "InvalidBankCode", "branch_code": "InvalidBranchCode", "account_code": "InvalidAccountCode"}


def clean(x: str) -> str:
    return "".join(c for c in x if not c.isspace()).upper()


class GenExpectation:
    """kind: 'return' (with .iban), 'error' (any library error; .classes non-empty => must be one of them),
    'dontcare'."""

    def __init__(self, kind, iban=None, classes=(), why=""):
        self.kind, self.iban, self.classes, self.why = kind, iban, set(classes), why


def expect_generate(cc: str, bank: str, account: str, branch: str = "", table=None) -> GenExpectation:
    table = data.countries() if table is None else table
    if any(R.ambiguous_normalisation(x) for x in (bank, account, branch)):
        return GenExpectation("dontcare", why="ambiguous normalisation")
    if cc not in table:
        return GenExpectation("error", why="unknown country")
    spec = table[cc]
    pos = data.positions(spec)
    if not pos:
        return GenExpectation("error", why="country without published positions")
    vals = {"bank_code": clean(bank), "branch_code": clean(branch), "account_code": clean(account)}
    width = {k: (pos[k][1] - pos[k][0] if k in pos else 0) for k in vals}
    # combined bank+branch width: split across both fields (only meaningful when a branch field exists)
    if width["branch_code"] > 0 and len(vals["bank_code"]) == width["bank_code"] + width["branch_code"] and width["bank_code"] > 0:
        if vals["branch_code"]:
            cl = {"InvalidBankCode", "InvalidBranchCode"}
            if len(vals["account_code"]) > width["account_code"]:
                cl.add("InvalidAccountCode")
            return GenExpectation("error", why="combined-width bank code and a branch code both supplied", classes=cl)
        vals["branch_code"] = vals["bank_code"][width["bank_code"] :]
        vals["bank_code"] = vals["bank_code"][: width["bank_code"]]
    too_long = {TOO_LONG[k] for k in vals if len(vals[k]) > width[k]}
    if too_long:
        return GenExpectation("error", classes=too_long, why="component longer than its field")
    L = spec["bban_length"]
    bban = ["0"] * L
    for k, v in vals.items():
        if k in pos:
            s, e = pos[k]
            bban[s:e] = list(v.rjust(e - s, "0"))
    b = "".join(bban)
    if len(b) != L:
        return GenExpectation("dontcare", why="positions inconsistent with length")
    if cc in N.COMPUTING and cc in N.LENGTHS and N.LENGTHS[cc] == L:
        if not R.is_ascii_alnum_upper(b):
            return GenExpectation("error", why="character outside A-Z0-9")
        try:
            kind, digits = N.expected_digits(cc, b)
        except (ValueError, KeyError, IndexError):
            return GenExpectation("error", why="national digits not computable for these characters")
        if kind == "none":
            return GenExpectation("error", why="no national check digit exists")
        if kind == "dontcare":
            return GenExpectation("dontcare", why="national rule not pinned")
        s, e = N.CHECK_FIELD[cc]
        b = b[:s] + digits + b[e:]
    elif cc in N.COMPUTING:
        return GenExpectation("dontcare", why="layout differs from published one")
    if not R.is_ascii_alnum_upper(b) or not R.matches_spec(spec["bban_spec"], b):
        return GenExpectation("error", why="padded components do not fit the country's structure")
    return GenExpectation("return", iban=R.make_iban(cc, b))
