"""R-LOOKUP: (country, bank key) -> entries in file order; selection rule; BIC -> entries."""
from __future__ import annotations

from vf.ref import data


def by_key(banks=None) -> dict:
    banks = data.banks() if banks is None else banks
    out: dict = {}
    for e in banks:
        k = (e.get("country_code"), e.get("bank_code"))
        if k[0] and k[1]:
            out.setdefault(k, []).append(e)
    return out


def by_bic(banks=None) -> dict:
    banks = data.banks() if banks is None else banks
    out: dict = {}
    for e in banks:
        if e.get("bic"):
            out.setdefault(e["bic"], []).append(e)
    return out


def candidates(entries) -> list:
    """Non-empty BICs, primary entries first, otherwise file order (stable)."""
    prim = [e["bic"] for e in entries if e.get("bic") and e.get("primary")]
    rest = [e["bic"] for e in entries if e.get("bic") and not e.get("primary")]
    return prim + rest


def selection_ok(chosen: str, cands: list) -> bool:
    if chosen not in cands:
        return False
    eight = [c for c in cands if len(c) == 8]
    if eight:
        return chosen in eight
    xxx = [c for c in cands if c.endswith("XXX") and len(c) == 11]
    if xxx:
        return chosen in xxx
    return chosen == cands[0]
