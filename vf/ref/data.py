"""R-DATA: independent loader of the tree's registry files.  Never imports schwifty.

Rules encoded (C18 statement + the two registry READMEs): files of a registry directory in plain
file-name order; dict registries are deep-merged, later file wins; list registries are concatenated;
a file whose stem ends in 'v2' is a compact document expanded to one entry per listed code, with
'primary' defaulting to false."""
from __future__ import annotations

import copy
import json
import os

from vf import env

COMPONENTS = [
    "account_id",
    "account_type",
    "account_code",
    "account_holder_id",
    "currency_code",
    "bank_code",
    "branch_code",
    "national_checksum_digits",
]


def deep_merge(left, right):
    """Later (right) wins; dict/dict recurses; anything else is replaced.  Inputs untouched."""
    out = {}
    for k, v in left.items():
        if k in right:
            rv = right[k]
            if isinstance(v, dict) and isinstance(rv, dict):
                out[k] = deep_merge(v, rv)
            else:
                out[k] = copy.deepcopy(rv)
        else:
            out[k] = copy.deepcopy(v)
    for k, rv in right.items():
        if k not in left:
            out[k] = copy.deepcopy(rv)
    return out


def expand_v2(doc):
    src, dst = doc["expand_from"], doc["expand_into"]
    out = []
    for entry in doc["entries"]:
        base = {k: v for k, v in entry.items() if k != src}
        base.setdefault("primary", False)
        for value in entry[src]:
            e = dict(base)
            e[dst] = value
            out.append(e)
    return out


def registry_files(pkg_dir: str, name: str):
    d = os.path.join(pkg_dir, f"{name}_registry")
    names = sorted(n for n in os.listdir(d) if n.endswith(".json") and os.path.isfile(os.path.join(d, n)))
    return [os.path.join(d, n) for n in names]


def is_v2(path: str) -> bool:
    stem = os.path.basename(path)[: -len(".json")]
    return stem.endswith("v2")


def load(pkg_dir: str | None, name: str):
    pkg_dir = pkg_dir or env.PKG
    data = None
    for path in registry_files(pkg_dir, name):
        with open(path, encoding="utf-8") as fp:
            chunk = json.load(fp)
        if is_v2(path):
            chunk = expand_v2(chunk)
        if data is None:
            data = copy.deepcopy(chunk)
        elif isinstance(data, list):
            data = data + list(chunk)
        else:
            data = deep_merge(data, chunk)
    return data


_cache: dict = {}


def countries(pkg_dir: str | None = None) -> dict:
    key = ("iban", pkg_dir or env.PKG)
    if key not in _cache:
        _cache[key] = load(pkg_dir, "iban")
    return _cache[key]


def banks(pkg_dir: str | None = None) -> list:
    key = ("bank", pkg_dir or env.PKG)
    if key not in _cache:
        _cache[key] = load(pkg_dir, "bank")
    return _cache[key]


def positions(spec: dict) -> dict:
    """component -> (start, end) for the components the country publishes (non-empty ranges)."""
    out = {}
    for comp, rng in (spec.get("positions") or {}).items():
        if comp in COMPONENTS and isinstance(rng, list) and len(rng) == 2 and tuple(rng) != (0, 0):
            out[comp] = (rng[0], rng[1])
    return out


def lookup_components(spec: dict) -> list:
    return list(spec.get("bic_lookup_components", ["bank_code"]))


def iso3166_alpha2() -> set:
    """ISO 3166-1 alpha-2 codes from pycountry's data file (read with json, pycountry not imported)."""
    if "iso" not in _cache:
        import importlib.util  # noqa: PLC0415

        spec = importlib.util.find_spec("pycountry")
        base = os.path.dirname(spec.origin)
        with open(os.path.join(base, "databases", "iso3166-1.json"), encoding="utf-8") as fp:
            doc = json.load(fp)
        _cache["iso"] = {e["alpha_2"] for e in doc["3166-1"]}
    return _cache["iso"]
