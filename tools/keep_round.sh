#!/bin/sh
# tools/keep_round.sh <out-dir-name> <idA> <idB>   e.g. out3 E F
# evaluate every finished seed of a round that has not been kept yet (own property's quick check only)
cd /verif || exit 1
OUT="$1"; LA="$2"; LB="$3"
for d in /tmp/seed-C*/"$OUT"/A /tmp/seed-C*/"$OUT"/B; do
  [ -f "$d/meta.json" ] && [ -f "$d/patch.diff" ] && [ -f "$d/demo.py" ] || continue
  pid=$(echo "$d" | sed 's#/tmp/seed-\(C[0-9]*\)/.*#\1#'); x=$(basename "$d"); sid="$pid-$( [ "$x" = A ] && echo "$LA" || echo "$LB" )"
  [ -d "seeded/$sid" ] && continue
  tools/keep_seed.py "$d" "$sid" --checks "$pid" 2>/dev/null | head -2
done
