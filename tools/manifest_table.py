NOTE = "trusted base: CPython 3.12 (str, re, json, threading, sys.monitoring), pycountry's ISO 3166-1 data file, rstr, and the reference models in vf/ref (written independently of the library; registry data re-read from the tree on every run). The verdict is about the executions produced (held on K observed cases), never 'verified'. Every check (except C13-C15, which are process-state sensitive by design) also repeats one of its shards under four threads, under -W error, and under python -OO in the C locale; every second shard runs after a prelude that uses the library's other entry points (DESIGN.md 9.1)."


def c(technique, text, ref, note=NOTE):
    return {"technique": technique, "text": text, "note": note, "design_ref": ref}


RM = "runtime monitoring: "
CHECKS = {
    "C01": c(RM + "boundary recorder + independent ISO 13616 reference oracle (three-valued) over seeded hostile workloads",
             "every IBAN(text) / validate() / is_valid call of eight workload families (per-country valid corpus, position x wide-alphabet sweep with recomputed check digits, lengths 0..40, all 100 check-digit pairs, all 676 prefixes, decoration, hostile Unicode, edit fuzz) is judged against R-IBAN; finite sub-spaces enumerated, the rest sampled with a seeded generator", "DESIGN.md §5 C01"),
    "C02": c(RM + "boundary recorder + ISO 7064 reference; full enumeration of the 100 check-digit pairs per BBAN",
             "per country, BBANs incl. ones forced by the reference to have computed digits 02/03/97/98; from_bban result compared with the reference digits, and exactly the computed pair must be accepted among all 100", "DESIGN.md §5 C02"),
    "C03": c(RM + "relational oracle over exhaustively enumerated single-character mutants of reference-valid IBANs",
             "for each base IBAN of every country all same-kind substitutions at positions >= 2 and all adjacent same-kind transpositions are executed; any accepted mutant is a violation", "DESIGN.md §5 C03"),
    "C04": c(RM + "boundary recorder + independent ISO 9362 reference oracle over seeded hostile workloads, both compliance modes",
             "registry BICs, all 676 country pairs, position x wide-alphabet sweeps, lengths 0..14, decoration, hostile Unicode and edit fuzz judged against R-BIC through constructor, validate() and is_valid, as plain text, wrapped objects, user subclasses and positional / truthy-flag call forms; one stress shard validates shared objects from six threads under alternating modes", "DESIGN.md §5 C04, §9.5"),
    "C05": c(RM + "totality monitor (only library exceptions may escape) + defect-set oracle for the raised class + entry-point agreement monitor",
             "multi-defect and non-ASCII IBAN/BIC texts with every flag combination; the raised class must lie in the set allowed by the defects the reference finds present; is_valid never raises; constructor <=> validate <=> is_valid; cold-start thread shards; a custom-country shard (pycountry add_entry after first use)", "DESIGN.md §5 C05, §9.5"),
    "C06": c(RM + "boundary recorder at three entry points + independent national-algorithm reference (R-NAT) with reference-forced valid inputs",
             "22 national algorithms judged on structure-conforming BBANs (half forced valid by the reference, twins differing only in the check field, library draws); other countries must be unaffected by the flag; success is True, failure raises", "DESIGN.md §5 C06"),
    "C07": c(RM + "boundary recorder + independent Bundesbank-method reference (R-DE), direct and through the public API for every German bank code",
             "39 methods on accounts of all significant lengths with the check position swept over all digits, range boundaries; every registry bank code through IBAN(..., validate_bban=True) with the method of its first registry entry; unlisted/unimplemented must accept", "DESIGN.md §5 C07"),
    "C08": c(RM + "boundary recorder + placement model R-GEN (return exactly the modelled IBAN or the component-specific library error)",
             "all countries x component strings of every length/character class through IBAN.generate and BBAN.from_components", "DESIGN.md §5 C08"),
    "C09": c(RM + "relational monitors: computed digits must pass the library's own national validation and R-NAT; parse -> rebuild must reproduce the BBAN",
             "19 computing countries via generate/random; every country with positions via reference-forced nationally valid IBANs decomposed and rebuilt", "DESIGN.md §5 C09"),
    "C10": c(RM + "differential monitor: decorated variant vs base text through the parsing constructors; formatted/reparse round trip",
             "whitespace (space, tab, LF, CR, FF, VT, NBSP) and case decorations of valid and invalid IBANs/BICs of every country must not change verdict or object; formatted equals the harness's own grouping and re-parses equal", "DESIGN.md §5 C10"),
    "C11": c(RM + "invariant monitor on accepted objects against the positions the tree's data publish",
             "every country's reference-valid IBANs and every registry BIC decomposed; components equal published slices, accessors of IBAN and BBAN agree, fields do not overlap, reassembly is equal", "DESIGN.md §5 C11"),
    "C12": c(RM + "exhaustive enumeration of registry keys and BICs against R-LOOKUP, plus synthetic registries in scratch package copies (configurations)",
             "all (country, bank code) keys, all BICs, unlisted pairs; candidates multiset and primary-first, selection rule, inversion, IBAN-level bank/bic/names; same monitors on hostile synthetic registries", "DESIGN.md §5 C12"),
    "C13": c(RM + "boundary recorder + R-IBAN validity + pin monitor + cross-process digest comparison under several PYTHONHASHSEED values",
             "every country x seeds x registry modes x pinned subsets; in-process and cross-process reproducibility; listed-bank monitor", "DESIGN.md §5 C13"),
    "C14": c(RM + "deterministic thread scheduler on sys.monitoring (all single preemption points at line and instruction granularity), stress threads with 1us switch interval, cold-start runs; oracle = solo outcome",
             "pairs of calls routed to the same shared object with different solo behaviour (classes forced by the reference) explored under every single preemption point; stress and cold-start runs compare every outcome with the solo outcome; first-use trials preempt the first caller of every algorithm family at its K-th step inside the checksum modules in fresh processes; one object shared by both callers; a second thread after handled failing calls", "DESIGN.md §5 C14, §9.5"),
    "C15": c(RM + "history differ over fresh-interpreter histories + registry write barrier (dict/list subclasses) + SHA-256 fingerprints + write-open audit hook + object re-read",
             "a pool of call descriptors built around collision families executed in canonical, reverse, permuted and pairwise histories and as first call of a fresh process; one outcome per descriptor required; no registry mutation event, fingerprint change or write-open; kept objects are handed back to the constructors and re-read at the end", "DESIGN.md §5 C15, §9.5"),
    "C16": c(RM + "relational monitor: every operator on every ordered pair of a pool vs the same operator on the compact strings; copy/deepcopy/pickle state comparison",
             "pool of valid/unvalidated IBANs, BICs, BBANs (equal values under different countries, user subclasses, very long and empty unvalidated objects) and plain strings; attributes read before copying; pickles crossing processes with different hash seeds", "DESIGN.md §5 C16, §9.5"),
    "C17": c(RM + "exhaustive enumeration of the tree's country and bank entries with structural invariants and a reachability monitor through the real library",
             "all country entries and all bank entries: length arithmetic, IBAN structure string = two letters + 2!n + BBAN structure, position bounds/overlap, algorithm field reads, BIC validity, bank-code class fit; IBAN built around every entry must be accepted and find the entry", "DESIGN.md §5 C17"),
    "C18": c(RM + "reference-model comparison of merge_dicts on generated nested dicts; scenario harness (scratch package copies with overlay files) comparing effective tables with R-DATA and re-running C01/C08/C12 monitors on the scratch data",
             "seeded + hypothesis nested dict pairs; scenarios with new countries, partial nested overrides, scalar<->dict conflicts, name-order fights between files, v2 bank files (incl. codes that look like patterns), bank files before/between/after the bundled ones, dot files, prefix siblings, a retried import after a repaired file", "DESIGN.md §5 C18, §9.5"),
}
NOT_APPLICABLE = {}
