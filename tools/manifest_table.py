NOTE_COMMON = "trusted base: CPython 3.12 (str, re, json, sys.monitoring), pycountry's ISO 3166-1 data file, the reference models in vf/ref (written independently of the library; data re-read from the tree each run). Verdict is about the executions produced, never 'verified'."

CHECKS = {
    "C01": {
        "technique": "runtime monitoring: boundary recorder + independent ISO 13616 reference oracle over seeded hostile workloads",
        "text": "every IBAN(text) / validate() / is_valid call of eight workload families (per-country valid corpus, position x wide-alphabet sweep, lengths 0..40, all 100 check-digit pairs, all 676 prefixes, decoration, hostile Unicode, edit fuzz) is judged against a three-valued reference; finite sub-spaces are enumerated, the rest sampled with a seeded generator",
        "note": NOTE_COMMON,
        "design_ref": "DESIGN.md §5 C01",
    },
}
NOT_APPLICABLE = {}
