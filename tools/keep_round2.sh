#!/bin/sh
# evaluate every finished round-2 seed that has not been kept yet (own property's check only)
cd /verif || exit 1
for d in /tmp/seed-C*/out2/A /tmp/seed-C*/out2/B; do
  [ -f "$d/meta.json" ] && [ -f "$d/patch.diff" ] && [ -f "$d/demo.py" ] || continue
  pid=$(echo "$d" | sed 's#/tmp/seed-\(C[0-9]*\)/.*#\1#'); x=$(basename "$d"); sid="$pid-$( [ "$x" = A ] && echo C || echo D )"
  [ -d "seeded/$sid" ] && continue
  tools/keep_seed.py "$d" "$sid" --checks "$pid" 2>/dev/null | head -2
done
