#!/usr/bin/env python3
"""Regenerate MANIFEST.json from the table below (kept in one place so it stays valid)."""
import json
import os

HERE = os.path.dirname(os.path.dirname(os.path.abspath(__file__)))
BASELINE = "cd /repo && /venv/bin/python -m pytest -ra -q -p no:cacheprovider --timeout=900 --continue-on-collection-errors"

# pid -> (technique, level text, level note, design ref)
CHECKS = {}
NOT_YET = {}


def load_table():
    import importlib.util

    spec = importlib.util.spec_from_file_location("manifest_table", os.path.join(HERE, "tools", "manifest_table.py"))
    mod = importlib.util.module_from_spec(spec)
    spec.loader.exec_module(mod)
    return mod.CHECKS, mod.NOT_APPLICABLE


def main():
    checks, na = load_table()
    props = [json.loads(l)["id"] for l in open(os.path.join(HERE, "properties.jsonl"), encoding="utf-8") if l.strip()]
    out = {
        "version": 1,
        "setup_cmd": "sh bin/setup",
        "hooks": {
            "guard": "SCHWIFTY_VERIF",
            "enable": "no hooks are compiled into /repo: every monitor attaches from outside at run time (public boundary wrappers, sys.monitoring, registry write barrier); the guard name is reserved and unused",
            "baseline_off_cmd": BASELINE,
            "source_commits": [],
            "add_only": True,
        },
        "engines": [
            {
                "name": "vf",
                "path": "vf/",
                "serves_properties": sorted(checks),
                "kind_free_text": "runtime monitoring: real library driven by seeded hostile workloads in fresh interpreters; boundary recorder + independent reference oracles (three-valued) + relational/differential monitors; sys.monitoring-based deterministic thread scheduler; registry write barrier; history differ",
            }
        ],
        "checks": [],
        "notes": "exit 0 held on everything observed / 1 VIOLATION / 2 INCONCLUSIVE (deciding monitor not reached, worker died); see DESIGN.md",
        "not_applicable": [],
    }
    for pid in props:
        if pid in checks:
            c = checks[pid]
            out["checks"].append(
                {
                    "property_id": pid,
                    "quick_cmd": f"bin/check {pid} quick",
                    "thorough_cmd": f"bin/check {pid} thorough",
                    "evidence_file": f"evidence/{pid}.json",
                    "replay_cmd_template": f"bin/check {pid} quick --replay {{path}}",
                    "engine": "vf",
                    "level_claimed": {"category": c.get("category", "exploration"), "text": c["text"], "design_ref": c["design_ref"]},
                    "level_note": c["note"],
                    "technique": c["technique"],
                }
            )
        else:
            out["not_applicable"].append({"property_id": pid, "reason": na.get(pid, "check not built yet in this round (runtime monitoring applies; see DESIGN.md)")})
    with open(os.path.join(HERE, "MANIFEST.json"), "w", encoding="utf-8") as fp:
        json.dump(out, fp, indent=1)
        fp.write("\n")
    print("MANIFEST.json:", len(out["checks"]), "checks,", len(out["not_applicable"]), "not_applicable")


if __name__ == "__main__":
    main()
