#!/usr/bin/env python3
"""Regenerate the seeded-change table of DESIGN.md (between the SEEDED-TABLE markers) from seeded/*/meta.json."""
import glob
import json
import os
import re

HERE = os.path.dirname(os.path.dirname(os.path.abspath(__file__)))
rows = ["| id | property | change (needs to manifest) | caught by (quick tier) | first evaluation |", "|---|---|---|---|---|"]
for f in sorted(glob.glob(os.path.join(HERE, "seeded", "*", "meta.json"))):
    m = json.load(open(f))
    fe = m.get("first_evaluation")
    first = "same" if (not fe or m["property"] in (fe.get("caught_by") or [])) else ("missed by " + (",".join(sorted(c for c, v in (fe.get("checks_run") or {}).items() if v["exit"] != 1)) or m["property"]) + "; caught after strengthening (§9.5)")
    mech = []
    for c in m.get("caught_by", []):
        ms = (m.get("checks_run", {}).get(c, {}).get("mechanisms") or [])[:2]
        mech.append(f"{c}: " + ", ".join(f"`{x}`" for x in ms))
    summ = (m.get("summary") or "").replace("|", "/").replace("\n", " ")
    need = (m.get("needs_to_manifest") or "").replace("|", "/").replace("\n", " ")
    rows.append(f"| {m['id']} | {m['property']} | {summ[:230]} — *needs:* {need[:200]} | {'; '.join(mech) or '**none**'} | {first} |")
table = "\n".join(rows)
p = os.path.join(HERE, "DESIGN.md")
s = open(p, encoding="utf-8").read()
s2 = re.sub(r"(<!-- SEEDED-TABLE-BEGIN -->\n).*?(<!-- SEEDED-TABLE-END -->)", lambda m_: m_.group(1) + table + "\n" + m_.group(2), s, flags=re.S)
open(p, "w", encoding="utf-8").write(s2)
print(len(rows) - 2, "seeded changes in table")
