#!/usr/bin/env python3
"""tools/keep_seed.py <agent out dir> <seed id> [--checks ...]: evaluate (tools/eval_seed.py) and, if the
change is confirmed (applies, 362 tests pass, demo fails with / passes without), keep it as seeded/<id>/."""
import json
import os
import shutil
import subprocess
import sys

VERIF = os.path.dirname(os.path.dirname(os.path.abspath(__file__)))
src, sid = sys.argv[1], sys.argv[2]
extra = sys.argv[3:]
out = subprocess.run([os.path.join(VERIF, "tools", "eval_seed.py"), src] + extra, capture_output=True, text=True).stdout
r = json.loads(out)
agent_meta = json.load(open(os.path.join(src, "meta.json")))
print(sid, "valid_seed=", r["valid_seed"], "tests", r.get("tests_passed"), "demo clean/patched rc", r.get("demo_clean_rc"), r.get("demo_patched_rc"), "caught_by", r["caught_by"])
for c, v in r.get("checks", {}).items():
    print("   ", c, "rc", v["rc"], v["mechanisms"][:4], v["inconclusive"][:1])
if not r["valid_seed"]:
    print("NOT KEPT:", json.dumps({k: r.get(k) for k in ("applies", "apply_error", "tests_failed_names", "demo_patched_tail")})[:600])
    sys.exit(1)
dst = os.path.join(VERIF, "seeded", sid)
os.makedirs(dst, exist_ok=True)
same = os.path.realpath(src) == os.path.realpath(dst)
if not same:
    shutil.copy(os.path.join(src, "patch.diff"), os.path.join(dst, "patch.diff"))
    shutil.copy(os.path.join(src, "demo.py"), os.path.join(dst, "demo.py"))
meta = {
    "id": sid,
    "property": r["property"],
    "summary": agent_meta.get("summary"),
    "needs_to_manifest": agent_meta.get("needs_to_manifest"),
    "files": agent_meta.get("files"),
    "origin": "independent sub-agent given only the property text and a scratch worktree",
    "confirmed": {
        "how": "tools/eval_seed.py in a scratch worktree of /repo HEAD (removed afterwards): git apply; repository test-suite; demo.py with and without the change",
        "tests_passed": r.get("tests_passed"), "tests_failed": r.get("tests_failed_names"),
        "demo_rc_unchanged_tree": r.get("demo_clean_rc"), "demo_rc_with_change": r.get("demo_patched_rc"),
    },
    "checks_run": {c: {"exit": v["rc"], "mechanisms": v["mechanisms"]} for c, v in r.get("checks", {}).items()},
    "caught_by": r["caught_by"],
}
if same:
    # re-evaluation after the checks were strengthened: keep the first evaluation on record
    old = agent_meta
    meta["summary"], meta["needs_to_manifest"], meta["files"] = old.get("summary"), old.get("needs_to_manifest"), old.get("files")
    meta["first_evaluation"] = old.get("first_evaluation") or {"checks_run": old.get("checks_run"), "caught_by": old.get("caught_by")}
    for keep_key in ("expect_caught_by", "expect_uncaught", "status", "note"):
        if keep_key in old:
            meta[keep_key] = old[keep_key]
    merged = dict(old.get("checks_run") or {})
    merged.update(meta["checks_run"])
    meta["checks_run"] = merged
    meta["caught_by"] = sorted(c for c, v in merged.items() if v["exit"] == 1)
json.dump(meta, open(os.path.join(dst, "meta.json"), "w"), indent=1)
print("kept as", dst)
