#!/bin/sh
# tools/with_patch.sh <patch> [-R] -- <command...>   apply a patch to /repo, run, always restore.
P="$1"; shift
REV=""
if [ "$1" = "-R" ]; then REV="-R"; shift; fi
[ "$1" = "--" ] && shift
if ! git -C /repo diff --quiet; then echo "refusing: /repo has local changes" >&2; exit 3; fi
git -C /repo apply $REV "$P" || { echo "patch does not apply" >&2; exit 3; }
"$@"; rc=$?
git -C /repo checkout -- . 
git -C /repo clean -fdq -- schwifty >/dev/null 2>&1
exit $rc
