#!/usr/bin/env python3
"""Evaluate one seeded change: tools/eval_seed.py <dir with patch.diff demo.py meta.json> [--checks C01,C05|all] [--tier quick]

Confirms in a scratch worktree of /repo (outside /repo and /verif, removed afterwards) that the patch
applies, the repository's own tests still pass, the demonstration fails with the change and passes
without it; then runs the named checks against the changed tree (SCHWIFTY_REPO) and reports which fire."""
import json
import os
import re
import shutil
import subprocess
import sys
import tempfile

VERIF = os.path.dirname(os.path.dirname(os.path.abspath(__file__)))
PY = "/venv/bin/python"


def git_wt(*args):
    """git worktree bookkeeping, one process at a time (add / remove / prune from concurrent evaluations race
    on /repo/.git/worktrees)."""
    import fcntl  # noqa: PLC0415

    with open("/tmp/vf-worktree.lock", "w") as lk:
        fcntl.flock(lk, fcntl.LOCK_EX)
        return sh(["git", "-C", "/repo", "worktree", *args])


def sh(cmd, cwd=None, env=None, timeout=3600):
    p = subprocess.run(cmd, cwd=cwd, env=env, capture_output=True, text=True, timeout=timeout, errors="replace")
    return p.returncode, (p.stdout or "") + (p.stderr or "")


def main():
    src = os.path.abspath(sys.argv[1])
    checks, tier = None, "quick"
    if "--checks" in sys.argv:
        checks = sys.argv[sys.argv.index("--checks") + 1]
    if "--tier" in sys.argv:
        tier = sys.argv[sys.argv.index("--tier") + 1]
    meta = json.load(open(os.path.join(src, "meta.json")))
    prop = meta.get("property") or meta.get("breaks")
    if checks in (None, ""):
        checks = prop
    if checks == "all":
        checks = ",".join(f"C{i:02d}" for i in range(1, 19))
    wt = tempfile.mkdtemp(prefix="ev-seed-")
    os.rmdir(wt)
    res = {"dir": src, "property": prop}
    try:
        rc, out = git_wt("add", "-q", wt, "HEAD")
        assert rc == 0, out
        shutil.copy(os.path.join(src, "demo.py"), os.path.join(wt, "demo_seed.py"))
        e = dict(os.environ, PYTHONDONTWRITEBYTECODE="1")
        rc, out = sh([PY, "demo_seed.py"], cwd=wt, env=e, timeout=900)
        res["demo_clean_rc"] = rc
        rc, out = sh(["git", "-C", wt, "apply", os.path.join(src, "patch.diff")])
        res["applies"] = rc == 0
        if rc != 0:
            res["apply_error"] = out[-400:]
            return res
        rc, out = sh([PY, "-m", "pytest", "-q", "-p", "no:cacheprovider", "--timeout=900"], cwd=wt, env=e, timeout=1800)
        m = re.search(r"(\d+) passed", out)
        f = re.search(r"(\d+) failed", out)
        res["tests_passed"] = int(m.group(1)) if m else 0
        res["tests_failed"] = int(f.group(1)) if f else 0
        res["tests_failed_names"] = sorted(set(re.findall(r"FAILED (\S+)", out)))
        rc, out = sh([PY, "demo_seed.py"], cwd=wt, env=e, timeout=900)
        res["demo_patched_rc"] = rc
        res["demo_patched_tail"] = out[-300:]
        res["checks"] = {}
        for c in checks.split(","):
            e2 = dict(os.environ, SCHWIFTY_REPO=wt, PYTHONDONTWRITEBYTECODE="1", VERIF_EVIDENCE_DIR=tempfile.mkdtemp(prefix="ev-evid-"))
            rc, out = sh([os.path.join(VERIF, "bin", "check"), c, tier], cwd=VERIF, env=e2, timeout=7200)
            mechs = re.findall(r'"mechanism": "([^"]+)"', out)
            res["checks"][c] = {"rc": rc, "violation_lines": out.count("VIOLATION property="), "mechanisms": sorted(set(mechs))[:8], "inconclusive": re.findall(r"INCONCLUSIVE.*", out)[:2]}
            shutil.rmtree(e2["VERIF_EVIDENCE_DIR"], ignore_errors=True)
    finally:
        git_wt("remove", "--force", wt)
        shutil.rmtree(wt, ignore_errors=True)
    res["valid_seed"] = bool(res.get("applies") and res.get("demo_clean_rc") == 0 and res.get("demo_patched_rc", 0) != 0 and res.get("tests_passed", 0) >= 362 and res.get("tests_failed", 9) <= 2)
    res["caught_by"] = [c for c, v in res.get("checks", {}).items() if v["rc"] == 1]
    return res


if __name__ == "__main__":
    r = main()
    print(json.dumps(r, indent=1))
